//! C03 — the hash is independent of chunking, interleaved finalize and clone.

use crate::gen;
use crate::json::Json;
use crate::oracle::{Opts, RefState};
use crate::report::{guard, Report};
use crate::rng::{fingerprint, Rng};
use crate::variant::{gen_err_name, options, Parts, Variant};
use crate::{all_variants, Ctx};
use tlsh::verif::GeneratorState;
use tlsh::{GeneratorError, GeneratorType};

#[derive(Clone, Debug)]
pub enum Op {
    /// feed the next `n` bytes of the line's data
    Update(usize),
    /// call finalize with options (result compared with a single shot on the prefix when `check`)
    Finalize(u8, bool),
    /// clone; the clone is fed `suffix` according to `ops`
    Fork(Vec<u8>, Vec<Op>),
}

pub fn ops_to_json(ops: &[Op]) -> Json {
    Json::Arr(
        ops.iter()
            .map(|op| match op {
                Op::Update(n) => Json::obj().with("update", *n),
                Op::Finalize(o, c) => Json::obj().with("finalize", *o).with("check", *c),
                Op::Fork(sfx, sub) => Json::obj()
                    .with("fork_suffix", Json::hex(sfx))
                    .with("ops", ops_to_json(sub)),
            })
            .collect(),
    )
}

pub fn ops_from_json(j: &Json) -> Option<Vec<Op>> {
    let mut out = Vec::new();
    for e in j.as_arr()? {
        if let Some(n) = e.get("update") {
            out.push(Op::Update(n.as_u64()? as usize));
        } else if let Some(o) = e.get("finalize") {
            out.push(Op::Finalize(
                o.as_u64()? as u8,
                e.get("check").and_then(|c| c.as_bool()).unwrap_or(false),
            ));
        } else if let Some(sfx) = e.get_hex("fork_suffix") {
            out.push(Op::Fork(sfx, ops_from_json(e.get("ops")?)?));
        } else {
            return None;
        }
    }
    Some(out)
}

type Outcome = (Option<u32>, Vec<Result<Parts, GeneratorError>>);

fn observe<V: Variant>(g: &V::G) -> Outcome {
    let mut v = Vec::with_capacity(32);
    for o in 0..32u8 {
        if !super::c01::opt_selected(o) {
            v.push(Err(GeneratorError::TooSmallInput));
            continue;
        }
        v.push(
            g.finalize_with_options(&options(Opts(o)))
                .map(|h| V::parts(&h)),
        );
    }
    (g.processed_len(), v)
}

fn single_shot<V: Variant>(data: &[u8]) -> V::G {
    let mut g = V::new_gen();
    g.update(data);
    g
}

fn effective_state<V: Variant>(st: &GeneratorState) -> (Vec<u32>, u32, Vec<u8>, Vec<u8>, u32) {
    (
        st.buckets[..V::NB].to_vec(),
        st.len,
        st.checksum[..V::CK].to_vec(),
        st.tail[..(st.tail_len as usize).min(4)].to_vec(),
        st.tail_len,
    )
}

fn describe_diff(a: &Outcome, b: &Outcome) -> String {
    if a.0 != b.0 {
        return format!("processed_len {:?} vs single-shot {:?}", a.0, b.0);
    }
    for o in 0..32 {
        if a.1[o] != b.1[o] {
            let f = |r: &Result<Parts, GeneratorError>| match r {
                Ok(p) => format!("Ok({})", crate::json::hex(&p.bytes())),
                Err(e) => gen_err_name(e).to_string(),
            };
            return format!(
                "finalize({}) {} vs single-shot {}",
                Opts(o as u8).describe(),
                f(&a.1[o]),
                f(&b.1[o])
            );
        }
    }
    "no difference".into()
}

struct Line<'a> {
    data: &'a [u8],
    ops: &'a [Op],
}

/// Execute one line (main line or fork): `g` has already seen `prefix`.
fn exec_line<V: Variant>(
    g: &mut V::G,
    prefix: &mut Vec<u8>,
    line: &Line,
    rep: &mut Report,
    problems: &mut Vec<(String, String)>,
    depth: usize,
) {
    let mut pos = 0usize;
    for op in line.ops {
        match op {
            Op::Update(n) => {
                let n = (*n).min(line.data.len() - pos);
                let tail_before = prefix.len().min(4);
                let class = match n {
                    0..=4 => n,
                    5..=8 => 5,
                    _ => 6,
                };
                rep.count(&format!("transition:tail{}:piece{}", tail_before, class), 1);
                if (prefix.len() + n) % 16 == 5 {
                    // the generator is handed to another thread for this piece: results must not
                    // depend on which thread feeds or finalizes (no thread-local or global state)
                    let piece = &line.data[pos..pos + n];
                    std::thread::scope(|s| {
                        let _ = s.spawn(|| g.update(piece)).join();
                    });
                    rep.count("updates_on_another_thread", 1);
                } else {
                    g.update(&line.data[pos..pos + n]);
                }
                prefix.extend_from_slice(&line.data[pos..pos + n]);
                pos += n;
            }
            Op::Finalize(o, check) => {
                let got = if prefix.len() % 4 == 1 {
                    rep.count("finalize_on_another_thread", 1);
                    let gr: &V::G = g;
                    let o = *o;
                    std::thread::scope(|s| {
                        s.spawn(move || gr.finalize_with_options(&options(Opts(o))).map(|h| V::parts(&h)))
                            .join()
                            .unwrap_or(Err(GeneratorError::TooLargeInput))
                    })
                } else {
                    g.finalize_with_options(&options(Opts(*o)))
                        .map(|h| V::parts(&h))
                };
                rep.count("interleaved_finalize", 1);
                if *check {
                    let fresh = single_shot::<V>(prefix);
                    let exp = fresh
                        .finalize_with_options(&options(Opts(*o)))
                        .map(|h| V::parts(&h));
                    rep.eval(1);
                    if got != exp {
                        problems.push((
                            "interleaved-finalize".into(),
                            format!(
                                "finalize({}) after {} bytes in pieces differs from single shot",
                                Opts(*o).describe(),
                                prefix.len()
                            ),
                        ));
                    }
                }
            }
            Op::Fork(sfx, sub) => {
                if depth < 4 {
                    rep.count("forks", 1);
                    // a fork is taken with clone() or with clone_from() onto a generator that
                    // has already seen a few unrelated bytes
                    let mut fork = if (prefix.len() + sfx.len()) % 3 == 0 {
                        let mut other = V::new_gen();
                        let junk = [0x5au8, 1, 2, 3, 4, 5, 6];
                        other.update(&junk[..(prefix.len() + sub.len()) % 8]);
                        other.clone_from(g);
                        rep.count("forks_by_clone_from", 1);
                        other
                    } else {
                        g.clone()
                    };
                    let mut fprefix = prefix.clone();
                    exec_line::<V>(
                        &mut fork,
                        &mut fprefix,
                        &Line { data: sfx, ops: sub },
                        rep,
                        problems,
                        depth + 1,
                    );
                    compare_with_single_shot::<V>(&fork, &fprefix, "fork", rep, problems);
                }
            }
        }
    }
    // whatever is left of this line's data
    if pos < line.data.len() {
        g.update(&line.data[pos..]);
        prefix.extend_from_slice(&line.data[pos..]);
    }
}

fn compare_with_single_shot<V: Variant>(
    g: &V::G,
    seen: &[u8],
    which: &str,
    rep: &mut Report,
    problems: &mut Vec<(String, String)>,
) {
    let fresh = single_shot::<V>(seen);
    let a = observe::<V>(g);
    let b = observe::<V>(&fresh);
    rep.eval(33);
    if a != b {
        problems.push((format!("{}-observable", which), describe_diff(&a, &b)));
        return;
    }
    // diagnostic: effective internal state (hook H2)
    let sa = effective_state::<V>(&V::gen_state(g));
    let sb = effective_state::<V>(&V::gen_state(&fresh));
    if sa != sb {
        // state-only divergence: try to make it observable
        let mut rng = Rng::new(fingerprint(seen) ^ 0x5eed);
        let mut exposed = false;
        for _ in 0..64 {
            let mut g2 = g.clone();
            let mut f2 = fresh.clone();
            let n = rng.range(1, 48) as usize;
            let sfx = rng.bytes(n);
            g2.update(&sfx);
            f2.update(&sfx);
            if observe::<V>(&g2) != observe::<V>(&f2) {
                exposed = true;
                break;
            }
        }
        if exposed {
            problems.push((
                format!("{}-state-exposed", which),
                "internal state differs from the single-shot generator and a continuation exposes it".into(),
            ));
        } else {
            rep.inconclusive(&format!(
                "{}: effective internal state differs from the single-shot generator after {} bytes but 64 continuations did not expose it",
                V::NAME,
                seen.len()
            ));
        }
    }
    // continuation: amplify a divergence that has not crossed a quartile yet
    let mut rng = Rng::new(fingerprint(seen) ^ 0xc0ffee);
    let mut g2 = g.clone();
    let mut f2 = fresh;
    for _ in 0..rng.range(1, 3) {
        let n = rng.range(1, 40) as usize;
        let sfx = rng.bytes(n);
        g2.update(&sfx);
        f2.update(&sfx);
        rep.eval(33);
        if observe::<V>(&g2) != observe::<V>(&f2) {
            problems.push((
                format!("{}-continuation", which),
                "after identical continuations the chunk-fed and the single-shot generator differ".into(),
            ));
            break;
        }
    }
}

pub fn history_check<V: Variant>(data: &[u8], ops: &[Op], rep: &mut Report) {
    let case = || {
        Json::obj()
            .with("variant", V::NAME)
            .with("data", Json::hex(data))
            .with("ops", ops_to_json(ops))
    };
    let mut problems = Vec::new();
    // the guard must not hide which counters were bumped; run on a scratch report
    let r = {
        let rep_ref: &mut Report = rep;
        let problems_ref = &mut problems;
        guard(move || {
            let mut g = V::new_gen();
            let mut prefix = Vec::with_capacity(data.len());
            exec_line::<V>(
                &mut g,
                &mut prefix,
                &Line { data, ops },
                rep_ref,
                problems_ref,
                0,
            );
            compare_with_single_shot::<V>(&g, &prefix, "main", rep_ref, problems_ref);
            // finalize must not disturb: observe twice
            let a = observe::<V>(&g);
            let b = observe::<V>(&g);
            if a != b {
                problems_ref.push((
                    "finalize-disturbs".into(),
                    "two successive observations of the same generator differ".into(),
                ));
            }
            prefix.len()
        })
    };
    match r {
        Err(p) => rep.violation(
            &format!("history|{}|panic", V::NAME),
            &format!("panic: {} at {}", p.message, p.location),
            case(),
        ),
        Ok(_) => {}
    }
    for (kind, what) in problems {
        rep.violation(&format!("history|{}|{}", V::NAME, kind), &what, case());
    }
}

pub fn gen_ops(rng: &mut Rng, total: usize, depth: usize) -> Vec<Op> {
    let mut ops = Vec::new();
    for p in gen::pieces(rng, total) {
        ops.push(Op::Update(p));
        match rng.below(16) {
            0 | 1 => ops.push(Op::Finalize(rng.below(32) as u8, rng.chance(1, 3))),
            2 if depth < 3 => {
                let n = match rng.below(4) {
                    0 => rng.below(6) as usize,
                    _ => rng.below(200) as usize,
                };
                let sfx = rng.bytes(n);
                let sub = gen_ops(rng, n, depth + 1);
                ops.push(Op::Fork(sfx, sub));
            }
            _ => {}
        }
    }
    ops
}

fn model_one<V: Variant>(data: &[u8], rep: &mut Report) {
    let mut st = RefState::new(if V::NB == 48 { 48 } else { 256 });
    st.update(data);
    let mut g = V::new_gen();
    // worst-case chunking: byte by byte
    for b in data {
        g.update(std::slice::from_ref(b));
    }
    for o in [30u8, 28, 2, 0] {
        if let Some(exp) = st.finalize(V::NB, V::CK, Opts(o)) {
            let got = g
                .finalize_with_options(&options(Opts(o)))
                .map(|h| V::parts(&h));
            rep.eval(1);
            if let Some(class) = super::c01::compare_outcome(&got, &exp) {
                rep.violation(
                    &format!("history|{}|model|{}", V::NAME, class),
                    "byte-by-byte fed generator differs from the reference model",
                    Json::obj()
                        .with("variant", V::NAME)
                        .with("data", Json::hex(data))
                        .with("ops", Json::arr()),
                );
            }
        }
    }
}

pub fn run(ctx: &Ctx, rep: &mut Report) {
    rep.rule = "seeded histories over {update(piece), finalize(options), clone-and-continue} (piece sizes dominated by 0..=5, up to 400 pieces, forks to depth 3) for all five variants; observables (processed_len + all 32 finalize results) compared with a fresh single-shot generator for the main line and every fork, again after identical continuations, and (1 in 8) byte-by-byte feeding against the reference model; non-trivial = history with >= 2 update pieces; distinct by fingerprint of (data, ops)".into();
    let n = ctx.n(12_000, 600_000);
    for i in 0..n {
        let mut rng = ctx.rng("c03", i);
        let len = match rng.below(20) {
            0 => rng.range(0, 12) as usize,
            1 if ctx.thorough() && !gen::small() && ctx.scale >= 0.2 => rng.range(200_000, 1_100_000) as usize,
            _ => gen::byte_length(&mut rng, false).min(4096),
        };
        let (data, _) = gen::content(&mut rng, len, None);
        let ops = gen_ops(&mut rng, len, 0);
        let pieces = ops.iter().filter(|o| matches!(o, Op::Update(_))).count();
        match i % 5 {
            0 => history_check::<crate::variant::VShort>(&data, &ops, rep),
            1 => history_check::<crate::variant::VNormal>(&data, &ops, rep),
            2 => history_check::<crate::variant::VNormal3>(&data, &ops, rep),
            3 => history_check::<crate::variant::VLong>(&data, &ops, rep),
            _ => history_check::<crate::variant::VLong3>(&data, &ops, rep),
        }
        if i % 8 == 0 && data.len() <= 2048 {
            all_variants!(model_one, &data, rep);
        }
        rep.max("max_pieces", pieces as u64);
        if pieces >= 2 {
            let mut fp = data.clone();
            fp.extend_from_slice(ops_to_json(&ops).to_string().as_bytes());
            rep.distinct(fingerprint(&fp));
        }
        if rep.want_sample() && data.len() > 8 && data.len() < 80 {
            rep.sample(
                Json::obj()
                    .with("data", Json::hex(&data))
                    .with("ops", ops_to_json(&ops)),
            );
        }
    }
    if ctx.scale >= 1.0 {
        for t in 0..=4 {
            for c in 0..=6 {
                // a generator whose tail is not full cannot take a class >= (4 - t)... every
                // combination is reachable: the piece is simply split by the prologue
                rep.floor(&format!("transition:tail{}:piece{}", t, c), 1);
            }
        }
        rep.floor("forks", 10);
        rep.floor("forks_by_clone_from", 10);
        rep.floor("updates_on_another_thread", 10);
        rep.floor("finalize_on_another_thread", 10);
        rep.floor("interleaved_finalize", 10);
    }
}

fn replay_one<V: Variant>(name: &str, data: &[u8], ops: &[Op], rep: &mut Report) {
    if name == V::NAME {
        history_check::<V>(data, ops, rep);
        model_one::<V>(data, rep);
    }
}

pub fn replay(case: &Json, rep: &mut Report) -> bool {
    if let (Some(v), Some(data), Some(ops)) = (
        case.get("variant").and_then(|v| v.as_str()),
        case.get_hex("data"),
        case.get("ops").and_then(ops_from_json),
    ) {
        all_variants!(replay_one, v, &data, &ops, rep);
        return true;
    }
    false
}
