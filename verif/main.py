#!/usr/bin/env python3
"""Orchestrator: ./check <PROPERTY> --tier quick|thorough [--replay path]

Builds the probe for every configuration a property needs (always from
/repo's current working tree, hooks on), runs the monitor shards under the
requested instrumenting tool, merges what the monitors observed, applies the
known-findings protocol and writes evidence/<ID>.json.

Exit status: 0 held on everything observed, 1 violation (with a
`VIOLATION property=<id> replay=<path>` line), 2 inconclusive.
"""

import argparse
import concurrent.futures
import fcntl
import hashlib
import json
import os
import re
import shutil
import signal
import subprocess
import sys
import threading
import time

HERE = os.path.dirname(os.path.abspath(__file__))
ROOT = os.path.dirname(HERE)
sys.path.insert(0, HERE)

import configs  # noqa: E402
import plans  # noqa: E402

BUILD = os.path.join(ROOT, "build")
HARNESS = os.path.join(ROOT, "harness")
EVIDENCE = os.path.join(ROOT, "evidence")
REPLAYS = os.path.join(EVIDENCE, "replays")
KNOWN = os.path.join(ROOT, "KNOWN_FINDINGS.json")
NCPU = os.cpu_count() or 8
TARGET_TRIPLE = "x86_64-unknown-linux-gnu"

_print_lock = threading.Lock()


def log(*a):
    with _print_lock:
        print("[check]", *a, file=sys.stderr, flush=True)


class Inconclusive(Exception):
    pass


# ---------------------------------------------------------------------------
# Building


def base_env():
    env = dict(os.environ)
    env["CARGO_NET_OFFLINE"] = "true"
    env.pop("RUSTFLAGS", None)
    env.pop("CARGO_BUILD_RUSTFLAGS", None)
    env.pop("CARGO_ENCODED_RUSTFLAGS", None)
    env.pop("MIRIFLAGS", None)
    env.pop("CARGO_TARGET_DIR", None)
    return env


def target_dir(config, tool):
    kind = {"native": "native", "valgrind": "native"}.get(tool, tool)
    return os.path.join(BUILD, "t", "%s-%s" % (config, kind))


def profile_dir(profile):
    return {"rel": "release", "dbg": "dbg", "dev": "debug"}[profile]


def cargo_profile_args(profile):
    if profile == "rel":
        return ["--release"]
    if profile == "dbg":
        return ["--profile", "dbg"]
    return []


def rustflags_for(config, tool):
    flags = ["--cfg fast_tlsh_verif"]
    extra = configs.rustflags(config)
    if extra:
        flags.append(extra)
    if tool == "asan":
        flags.append("-Zsanitizer=address -Cforce-frame-pointers=yes")
    if tool == "tsan":
        flags.append("-Zsanitizer=thread -Cforce-frame-pointers=yes")
    return " ".join(flags)


_build_cache = {}
_build_cache_lock = threading.Lock()


def build(config, profile, tool):
    """Build the probe; returns the command prefix to run it."""
    key = (config, profile, tool)
    with _build_cache_lock:
        ent = _build_cache.get(key)
        if ent is None:
            ent = {"lock": threading.Lock(), "result": None}
            _build_cache[key] = ent
    with ent["lock"]:
        if ent["result"] is None:
            ent["result"] = _build(config, profile, tool)
        if isinstance(ent["result"], Exception):
            raise ent["result"]
        return ent["result"]


def _build(config, profile, tool):
    tdir = target_dir(config, tool)
    os.makedirs(tdir, exist_ok=True)
    env = base_env()
    env["CARGO_TARGET_DIR"] = tdir
    feats = " ".join(configs.features(config))
    common = ["--locked", "--no-default-features", "--features", feats, "--bin", "probe"]
    if tool in ("native", "valgrind"):
        env["RUSTFLAGS"] = rustflags_for(config, tool)
        cmd = ["cargo", "build"] + cargo_profile_args(profile) + common
        binary = os.path.join(tdir, profile_dir(profile), "probe")
        prefix = [binary]
    elif tool == "asan":
        env["RUSTFLAGS"] = rustflags_for(config, tool)
        cmd = ["cargo", "+nightly", "build", "--target", TARGET_TRIPLE] + cargo_profile_args(profile) + common
        binary = os.path.join(tdir, TARGET_TRIPLE, profile_dir(profile), "probe")
        prefix = [binary]
    elif tool == "tsan":
        env["RUSTFLAGS"] = rustflags_for(config, tool)
        cmd = ["cargo", "+nightly", "build", "-Zbuild-std", "--target", TARGET_TRIPLE] + cargo_profile_args(profile) + common
        binary = os.path.join(tdir, TARGET_TRIPLE, profile_dir(profile), "probe")
        prefix = [binary]
    elif tool in ("miri", "miri-i686", "miri-s390x"):
        env["RUSTFLAGS"] = rustflags_for(config, tool)
        env["MIRIFLAGS"] = "-Zmiri-disable-isolation"
        tgt = {"miri": [], "miri-i686": ["--target", "i686-unknown-linux-gnu"], "miri-s390x": ["--target", "s390x-unknown-linux-gnu"]}[tool]
        cmd = ["cargo", "+nightly", "miri", "run"] + tgt + cargo_profile_args(profile) + common + ["--", "list"]
        prefix = ["cargo", "+nightly", "miri", "run", "-q"] + tgt + cargo_profile_args(profile) + common + ["--"]
        binary = None
    else:
        raise ValueError(tool)
    lock_path = os.path.join(tdir, ".verif-build.lock")
    t0 = time.time()
    with open(lock_path, "w") as lf:
        fcntl.flock(lf, fcntl.LOCK_EX)
        triple = {"miri": TARGET_TRIPLE, "miri-i686": "i686-unknown-linux-gnu", "miri-s390x": "s390x-unknown-linux-gnu"}.get(tool)
        sysroot = os.path.join(os.path.expanduser("~/.cache/miri/lib/rustlib"), triple or "none", "lib")
        if tool.startswith("miri") and not os.path.isdir(sysroot):
            # the first use of a target builds Miri's sysroot: serialise that per target
            with open(os.path.join(BUILD, ".miri-sysroot-%s.lock" % tool), "w") as sf:
                fcntl.flock(sf, fcntl.LOCK_EX)
                p = subprocess.run(cmd, cwd=HARNESS, env=env, stdout=subprocess.PIPE, stderr=subprocess.STDOUT, text=True)
        else:
            p = subprocess.run(cmd, cwd=HARNESS, env=env, stdout=subprocess.PIPE, stderr=subprocess.STDOUT, text=True)
    if p.returncode != 0:
        tail = "\n".join(p.stdout.splitlines()[-60:])
        err = BuildFailed(config, profile, tool, tail)
        log("BUILD FAILED %s/%s/%s\n%s" % (config, profile, tool, tail))
        return err
    log("built %s/%s/%s in %.1fs" % (config, profile, tool, time.time() - t0))
    return {"prefix": prefix, "env_extra": {k: env[k] for k in ("RUSTFLAGS", "MIRIFLAGS", "CARGO_TARGET_DIR") if k in env}, "binary": binary}


class BuildFailed(Exception):
    def __init__(self, config, profile, tool, tail):
        super().__init__("build failed: %s/%s/%s" % (config, profile, tool))
        self.config, self.profile, self.tool, self.tail = config, profile, tool, tail


# ---------------------------------------------------------------------------
# Running


def tool_env(tool, base, seeds=None):
    env = dict(base)
    if tool == "asan":
        env["ASAN_OPTIONS"] = "halt_on_error=1:abort_on_error=0:detect_leaks=1:exitcode=97:allocator_may_return_null=1"
    if tool == "tsan":
        env["TSAN_OPTIONS"] = "halt_on_error=1:exitcode=66:report_signal_unsafe=0"
    return env


SAN_PATTERNS = [
    (re.compile(r"ERROR: AddressSanitizer: ([\w-]+)"), "asan"),
    (re.compile(r"ERROR: LeakSanitizer: (.*)"), "lsan"),
    (re.compile(r"WARNING: ThreadSanitizer: ([\w ]+)"), "tsan"),
    (re.compile(r"error: Undefined Behavior: (.*)"), "miri-ub"),
    (re.compile(r"error: (memory leaked|the evaluated program leaked memory)(.*)"), "miri-leak"),
    (re.compile(r"error: (unsupported operation: .*)"), "miri-unsupported"),
    (re.compile(r"error: (deadlock.*|the evaluated program deadlocked)"), "miri-deadlock"),
    (re.compile(r"error: (Data race detected.*)"), "miri-race"),
]
VALGRIND_ERR = re.compile(r"==\d+== (Invalid (read|write)|Conditional jump or move depends on uninitialised|Use of uninitialised|Invalid free|Mismatched free|Source and destination overlap|Process terminating with default action of signal \d+ \(SIG\w+\))")
REPO_FRAME = re.compile(r"(/repo/fast-tlsh/src/[\w/.-]+:\d+)")


def classify_tool_output(text):
    """Return (kind, detail, first in-repo frame) for a sanitizer report, or None."""
    for pat, kind in SAN_PATTERNS:
        m = pat.search(text)
        if m:
            frame = REPO_FRAME.search(text[m.start():])
            return kind, m.group(1).strip()[:200], frame.group(1) if frame else ""
    m = VALGRIND_ERR.search(text)
    if m:
        frame = REPO_FRAME.search(text[m.start():])
        return "valgrind", m.group(1), frame.group(1) if frame else ""
    return None


def run_shard(step, built, tier, seed, shard, outdir):
    out = os.path.join(outdir, "shard-%d.json" % shard)
    for f in (out, out + ".fp"):
        if os.path.exists(f):
            os.remove(f)
    scratch = os.path.join(outdir, "scratch-%d" % shard)
    os.makedirs(scratch, exist_ok=True)
    args = [step.monitor, "--tier", tier, "--seed", str(seed), "--shard", "%d/%d" % (shard, step.shards),
            "--scale", repr(step.scale), "--config", step.config, "--tool", step.tool + "-" + step.profile,
            "--scratch", scratch, "--out", out]
    for k, v in sorted(step.params.items()):
        args += ["--param", "%s=%s" % (k, v)]
    env = base_env()
    env.update(built["env_extra"])
    env = tool_env(step.tool, env)
    if step.tool.startswith("miri"):
        flags = ["-Zmiri-disable-isolation"]
        if step.miri_flags:
            flags.append(step.miri_flags)
        env["MIRIFLAGS"] = " ".join(flags)
    for k, v in step.env.items():
        env[k] = v
    prefix = list(built["prefix"])
    if step.tool == "valgrind":
        prefix = ["valgrind", "--quiet", "--error-exitcode=98", "--track-origins=no", "--undef-value-errors=yes",
                  "--leak-check=no", "--num-callers=30"] + prefix
    cmd = prefix + args
    t0 = time.time()
    try:
        p = subprocess.run(cmd, cwd=HARNESS, env=env, stdout=subprocess.PIPE, stderr=subprocess.STDOUT,
                           text=True, errors="replace", timeout=step.timeout)
        rc, text, timed_out = p.returncode, p.stdout, False
    except subprocess.TimeoutExpired as e:
        rc, timed_out = None, True
        text = e.stdout if isinstance(e.stdout, str) else (e.stdout or b"").decode("utf-8", "replace")
    wall = time.time() - t0
    shutil.rmtree(scratch, ignore_errors=True)
    res = {"shard": shard, "rc": rc, "wall": wall, "timed_out": timed_out, "report": None, "fp": None,
           "tool_report": None, "output_tail": "\n".join((text or "").splitlines()[-40:]), "cmd": cmd}
    if os.path.exists(out):
        try:
            with open(out) as f:
                res["report"] = json.load(f)
            res["fp"] = out + ".fp"
        except Exception as e:  # truncated report
            res["report"] = None
            res["output_tail"] += "\n(report unreadable: %s)" % e
    res["tool_report"] = classify_tool_output(text or "")
    return res


# ---------------------------------------------------------------------------
# Merging and verdicts


def merge_reports(step, shard_results):
    m = {"monitor": step.monitor, "config": step.config, "profile": step.profile, "tool": step.tool,
         "shards": step.shards, "shards_reported": 0, "evaluations": 0, "counters": {}, "maxes": {}, "mins": {},
         "sets": {}, "floors": {}, "set_floors": {}, "samples": [], "violations": [], "violation_count": 0,
         "signatures": {}, "inconclusive": [], "rule": "", "assumptions": set(), "exhaustive": None,
         "fp_files": [], "wall_s": 0.0, "distinct_shard_sum": 0}
    for r in shard_results:
        m["wall_s"] = max(m["wall_s"], r["wall"])
        rep = r["report"]
        if rep is None:
            continue
        m["shards_reported"] += 1
        m["evaluations"] += rep["evaluations"]
        m["distinct_shard_sum"] += rep["distinct"]
        for k, v in rep["counters"].items():
            m["counters"][k] = m["counters"].get(k, 0) + v
        for k, v in rep["maxes"].items():
            m["maxes"][k] = max(m["maxes"].get(k, 0), v)
        for k, v in rep["mins"].items():
            m["mins"][k] = min(m["mins"].get(k, v), v)
        for k, v in rep["sets"].items():
            m["sets"].setdefault(k, set()).update(v)
        for k, v in rep["floors"].items():
            m["floors"][k] = max(m["floors"].get(k, 0), v)
        for k, v in rep["set_floors"].items():
            m["set_floors"][k] = max(m["set_floors"].get(k, 0), v)
        if len(m["samples"]) < 4:
            m["samples"].extend(rep["samples"][: 4 - len(m["samples"])])
        m["violations"].extend(rep["violations"])
        m["violation_count"] += rep["violation_count"]
        for k, v in rep["signatures"].items():
            m["signatures"][k] = m["signatures"].get(k, 0) + v
        m["inconclusive"].extend(rep["inconclusive"])
        m["rule"] = rep["rule"] or m["rule"]
        m["assumptions"].update(rep.get("assumptions", []))
        if "exhaustive" in rep:
            m["exhaustive"] = rep["exhaustive"] if m["exhaustive"] is None else (m["exhaustive"] and rep["exhaustive"])
        if r["fp"] and os.path.exists(r["fp"]):
            m["fp_files"].append(r["fp"])
    return m


def count_distinct(fp_files, any_probe):
    if not fp_files:
        return 0
    files = [f for f in fp_files if os.path.getsize(f) > 0]
    if not files:
        return 0
    try:
        p = subprocess.run(any_probe + ["merge-fp"] + files, stdout=subprocess.PIPE, stderr=subprocess.PIPE, text=True, timeout=600)
        return int(p.stdout.strip().splitlines()[-1])
    except Exception:
        # conservative fallback: the largest single shard
        return max(os.path.getsize(f) // 8 for f in files)


def load_known():
    if not os.path.exists(KNOWN):
        return {"findings": [], "fixed": []}
    with open(KNOWN) as f:
        return json.load(f)


_CURRENT = {"seed": 0, "tier": "quick"}


def write_replay(prop, step_info, violation):
    os.makedirs(REPLAYS, exist_ok=True)
    body = {
        "property": prop,
        "monitor": violation.get("monitor", step_info.get("monitor")),
        "config": step_info.get("config"),
        "profile": step_info.get("profile"),
        "tool": step_info.get("tool"),
        "params": step_info.get("params", {}),
        "signature": violation.get("signature"),
        "what": violation.get("what"),
        "case": violation.get("case"),
        "seed": _CURRENT["seed"],
        "tier": _CURRENT["tier"],
    }
    digest = hashlib.sha1(json.dumps(body, sort_keys=True).encode()).hexdigest()[:12]
    path = os.path.join(REPLAYS, "%s-%s.json" % (prop, digest))
    with open(path, "w") as f:
        json.dump(body, f, indent=1, sort_keys=True)
    return path


def run_property(prop, tier, seed, only=None):
    t_start = time.time()
    _CURRENT["seed"] = int(seed)
    _CURRENT["tier"] = tier
    steps = plans.plan(prop, tier)
    if only:
        steps = [s for s in steps if only in s.monitor or only == s.config or only == s.tool or only == s.profile]
    if not steps and not only:
        print("NOT-CLAIMED property=%s (no check registered)" % prop)
        return 2
    run_root = os.path.join(BUILD, "runs", prop + "-" + tier)
    shutil.rmtree(run_root, ignore_errors=True)
    os.makedirs(run_root, exist_ok=True)
    shutil.rmtree(os.path.join(REPLAYS), ignore_errors=False) if False else None
    # remove stale replays of this property
    if os.path.isdir(REPLAYS):
        for f in os.listdir(REPLAYS):
            if f.startswith(prop + "-"):
                os.remove(os.path.join(REPLAYS, f))

    # 1. builds (parallel over distinct configurations)
    build_keys = []
    for s in steps:
        k = (s.config, s.profile, s.tool)
        if k not in build_keys:
            build_keys.append(k)
    built = {}
    build_failures = []
    with concurrent.futures.ThreadPoolExecutor(max_workers=max(1, min(8, len(build_keys)))) as ex:
        futs = {ex.submit(build, *k): k for k in build_keys}
        for fut in concurrent.futures.as_completed(futs):
            k = futs[fut]
            try:
                built[k] = fut.result()
            except BuildFailed as e:
                build_failures.append(e)
    native_probe = None
    for k, b in built.items():
        if b.get("binary") and k[2] == "native":
            native_probe = [b["binary"]]
            break
    if native_probe is None:
        for k, b in built.items():
            if b.get("binary"):
                native_probe = [b["binary"]]
                break

    # 2. run shards
    jobs = []
    for si, s in enumerate(steps):
        k = (s.config, s.profile, s.tool)
        if k not in built:
            continue
        outdir = os.path.join(run_root, "%02d-%s-%s-%s-%s" % (si, s.monitor, s.config, s.profile, s.tool))
        os.makedirs(outdir, exist_ok=True)
        for sh in range(s.shards):
            jobs.append((si, s, built[k], sh, outdir))
    results = {si: [] for si in range(len(steps))}
    # heavier tools get fewer parallel slots
    with concurrent.futures.ThreadPoolExecutor(max_workers=NCPU) as ex:
        futs = {ex.submit(run_shard, s, b, tier, seed, sh, outdir): si for (si, s, b, sh, outdir) in jobs}
        for fut in concurrent.futures.as_completed(futs):
            results[futs[fut]].append(fut.result())

    # 3. merge + verdict
    known = load_known()
    known_here = [k for k in known.get("findings", []) if k.get("property") == prop]
    known_hits = {}
    new_violations = []  # (step_info, violation)
    inconclusive = []
    monitors_out = []
    assumptions = set(plans.ASSUMPTIONS.get(prop, [])) | set(plans.COMMON_ASSUMPTIONS)
    total_eval = 0
    samples = []
    rules = []
    exhaustive_flags = []
    fp_by_monitor = {}
    distinct_by_construction = 0

    for e in build_failures:
        if plans.build_failure_is_violation(prop):
            v = {"signature": "build|%s|%s|%s" % (e.config, e.profile, e.tool), "monitor": "build",
                 "what": "configuration %s (%s, %s) no longer builds" % (e.config, e.profile, e.tool),
                 "case": {"build_output_tail": e.tail}}
            new_violations.append(({"config": e.config, "profile": e.profile, "tool": e.tool, "monitor": "build"}, v))
        else:
            inconclusive.append("build failed: %s/%s/%s" % (e.config, e.profile, e.tool))

    for si, s in enumerate(steps):
        k = (s.config, s.profile, s.tool)
        if k not in built:
            continue
        step_info = {"config": s.config, "profile": s.profile, "tool": s.tool, "monitor": s.monitor, "params": s.params}
        rs = sorted(results[si], key=lambda r: r["shard"])
        m = merge_reports(s, rs)
        # process-level failures
        for r in rs:
            tr = r["tool_report"]
            if tr is not None:
                kind, detail, frame = tr
                if kind == "miri-unsupported":
                    inconclusive.append("%s: %s" % (s.describe(), detail))
                    continue
                v = {"signature": "tool|%s|%s|%s" % (kind, detail.split(" ")[0] if kind != "miri-ub" else detail[:60], frame),
                     "monitor": s.monitor, "what": "%s report under %s: %s (first in-repo frame %s)" % (kind, s.tool, detail, frame),
                     "case": {"cmd": r["cmd"], "output_tail": r["output_tail"]}}
                new_violations.append((step_info, v))
            elif r["timed_out"]:
                inconclusive.append("%s shard %d: watchdog (%ds) fired" % (s.describe(), r["shard"], s.timeout))
            elif r["report"] is None:
                if s.crash_is_violation and r["rc"] not in (0, None):
                    v = {"signature": "crash|%s|rc=%s" % (s.monitor, r["rc"]), "monitor": s.monitor,
                         "what": "probe process died (exit status %s) without a report" % r["rc"],
                         "case": {"cmd": r["cmd"], "output_tail": r["output_tail"]}}
                    new_violations.append((step_info, v))
                else:
                    inconclusive.append("%s shard %d: no report (exit status %s): %s" % (s.describe(), r["shard"], r["rc"], r["output_tail"][-400:]))
            elif r["rc"] != 0:
                inconclusive.append("%s shard %d: exit status %s with a report" % (s.describe(), r["shard"], r["rc"]))
        for why in m["inconclusive"]:
            inconclusive.append("%s: %s" % (s.describe(), why))
        # floors
        if m["shards_reported"] == s.shards:
            for key, need in m["floors"].items():
                have = m["counters"].get(key, 0)
                if have < need:
                    inconclusive.append("%s: coverage floor %s: observed %d < required %d" % (s.describe(), key, have, need))
            for key, need in m["set_floors"].items():
                have = len(m["sets"].get(key, ()))
                if have < need:
                    inconclusive.append("%s: coverage floor |%s|: observed %d (%s) < required %d" % (s.describe(), key, have, sorted(m["sets"].get(key, ())), need))
        # violations
        for v in m["violations"]:
            sig = v.get("signature", "")
            hit = None
            for kf in known_here:
                if kf.get("signature") == sig:
                    hit = kf
                    break
            if hit is not None:
                known_hits.setdefault(sig, [hit, 0])[1] += 1
            else:
                new_violations.append((step_info, v))
        # violations beyond the stored cap: judge by signature table
        for sig, cnt in m["signatures"].items():
            if any(kf.get("signature") == sig for kf in known_here):
                known_hits.setdefault(sig, [[kf for kf in known_here if kf.get("signature") == sig][0], 0])
        total_eval += m["evaluations"]
        distinct_by_construction += m["counters"].get("distinct_by_construction", 0)
        fp_by_monitor.setdefault(s.monitor, []).extend(m["fp_files"])
        if m["rule"]:
            if m["rule"] not in rules:
                rules.append(m["rule"])
        assumptions.update(m["assumptions"])
        if m["exhaustive"] is not None:
            exhaustive_flags.append(m["exhaustive"])
        for smp in m["samples"][:2]:
            if len(samples) < 12:
                samples.append({"monitor": s.monitor, "config": s.config, "tool": s.tool, "case": smp})
        monitors_out.append({
            "monitor": s.monitor, "config": s.config, "profile": s.profile, "tool": s.tool,
            "shards": s.shards, "shards_reported": m["shards_reported"], "scale": s.scale,
            "evaluations": m["evaluations"], "distinct_in_shards": m["distinct_shard_sum"],
            "counters": dict(sorted(m["counters"].items())),
            "maxes": m["maxes"], "mins": m["mins"],
            "sets": {k: sorted(v) for k, v in m["sets"].items()},
            "floors": m["floors"], "set_floors": m["set_floors"],
            "violations_observed": m["violation_count"],
            "wall_s": round(m["wall_s"], 2),
        })

    distinct = distinct_by_construction
    if native_probe:
        for mon, files in fp_by_monitor.items():
            distinct += count_distinct(files, native_probe)
    else:
        distinct += sum(mo["distinct_in_shards"] for mo in monitors_out)

    def run_single(config, profile, tool, monitor, params):
        st = plans.Step(monitor, config, profile=profile, tool=tool, shards=1, params=params)
        b = build(config, profile, tool)
        od = os.path.join(run_root, "single-%s-%s-%s" % (monitor, config, hashlib.sha1(json.dumps(params, sort_keys=True).encode()).hexdigest()[:8]))
        os.makedirs(od, exist_ok=True)
        r = run_shard(st, b, tier, seed, 0, od)
        return r["report"]

    # the reference models must reproduce the official known-answer vectors (no crate involved)
    if native_probe:
        try:
            st = subprocess.run(native_probe + ["selftest"], stdout=subprocess.PIPE, stderr=subprocess.STDOUT, text=True, timeout=600)
            if st.returncode != 0:
                inconclusive.append("reference-model self-test failed: %s" % st.stdout.strip()[-400:])
            else:
                assumptions.add("reference models self-test: " + st.stdout.strip().splitlines()[-1])
        except Exception as e:  # noqa
            inconclusive.append("reference-model self-test could not run: %s" % e)

    import types
    helpers = types.SimpleNamespace(native_probe=native_probe, run_single=run_single, base_env=base_env, BUILD=BUILD, ROOT=ROOT, log=log, only=only)
    extra = plans.post_process(prop, tier, seed, steps, monitors_out, helpers)
    if extra:
        for v in extra.get("violations", []):
            new_violations.append((v.get("step_info", {}), v))
        inconclusive.extend(extra.get("inconclusive", []))
        total_eval += extra.get("evaluations", 0)
        distinct += extra.get("distinct", 0)
        samples.extend(extra.get("samples", []))
        if extra.get("rule"):
            rules.append(extra["rule"])

    # 4. output
    exit_code = 0
    lines = []
    for sig, (kf, cnt) in sorted(known_hits.items()):
        lines.append("KNOWN-FINDING: property=%s %s" % (prop, kf.get("what", sig)))
    seen_sigs = set()
    replay_paths = []
    for step_info, v in new_violations:
        sig = v.get("signature", "")
        if sig in seen_sigs and len(replay_paths) >= 1:
            continue
        seen_sigs.add(sig)
        path = write_replay(prop, step_info, v)
        replay_paths.append(path)
        lines.append("VIOLATION property=%s replay=%s" % (prop, path))
        lines.append("  what: [%s/%s/%s %s] %s" % (step_info.get("config"), step_info.get("profile"), step_info.get("tool"), sig, (v.get("what") or "")[:600]))
        if len(replay_paths) >= 8:
            break
    if new_violations:
        exit_code = 1
    elif inconclusive:
        exit_code = 2
        for why in inconclusive[:20]:
            lines.append("INCONCLUSIVE property=%s %s" % (prop, why[:600]))

    wall = time.time() - t_start
    coverage = {
        "evaluations": int(total_eval),
        "distinct_nontrivial": int(distinct),
        "rule": " || ".join(rules) if rules else "see monitors",
        "samples": samples if samples else [{"note": "no sample recorded"}],
        "monitors": monitors_out,
        "configurations": sorted({"%s/%s/%s" % (s.config, s.profile, s.tool) for s in steps}),
        "inconclusive": inconclusive[:50],
        "known_findings_observed": [{"signature": sig, "count_stored": cnt} for sig, (kf, cnt) in sorted(known_hits.items())],
        "verdict": "violated" if exit_code == 1 else ("inconclusive" if exit_code == 2 else "held on what was observed"),
    }
    if exhaustive_flags:
        coverage["exhaustive"] = all(exhaustive_flags) and plans.EXHAUSTIVE_WHOLE.get(prop, False)
        coverage["exhaustive_parts"] = sum(1 for x in exhaustive_flags if x)
    if extra and extra.get("coverage"):
        coverage.update(extra["coverage"])
    evidence = {
        "property_id": prop, "tier": tier, "seed": int(seed), "level": "exploration",
        "coverage": coverage, "assumptions": sorted(assumptions), "wall_s": round(wall, 2),
        "violations": len(new_violations),
    }
    os.makedirs(EVIDENCE, exist_ok=True)
    tmp = os.path.join(EVIDENCE, ".%s.json.tmp" % prop)
    with open(tmp, "w") as f:
        json.dump(evidence, f, indent=1, sort_keys=True)
    os.replace(tmp, os.path.join(EVIDENCE, "%s.json" % prop))
    # scratch outputs of the shards: keep them only when there is something to look at
    try:
        if exit_code == 0:
            shutil.rmtree(run_root, ignore_errors=True)
        else:
            for dp, _dn, fns in os.walk(run_root):
                for fn in fns:
                    if fn.endswith(".fp"):
                        os.remove(os.path.join(dp, fn))
    except Exception:
        pass
    for ln in lines:
        print(ln)
    print("%s %s tier=%s seed=%s evaluations=%d distinct_nontrivial=%d violations=%d inconclusive=%d wall=%.1fs" % (
        prop, coverage["verdict"].upper(), tier, seed, total_eval, distinct, len(new_violations), len(inconclusive), wall))
    sys.stdout.flush()
    return exit_code


def run_replay(prop, path):
    with open(path) as f:
        rp = json.load(f)
    if rp.get("monitor") == "build":
        try:
            build(rp["config"], rp["profile"], rp["tool"])
        except BuildFailed:
            print("VIOLATION property=%s replay=%s" % (prop, path))
            return 1
        print("replay: configuration builds")
        return 0
    extra = plans.replay_special(prop, rp, path)
    if extra is not None:
        return extra
    built = build(rp["config"], rp["profile"], rp["tool"])
    outdir = os.path.join(BUILD, "runs", prop + "-replay")
    os.makedirs(outdir, exist_ok=True)
    out = os.path.join(outdir, "replay.json")
    env = base_env()
    env.update(built["env_extra"])
    env = tool_env(rp["tool"], env)
    cmd = list(built["prefix"]) + ["--replay", path, "--out", out, "--config", rp["config"], "--scratch", outdir,
                                   "--seed", str(rp.get("seed", 0)), "--tier", rp.get("tier", "quick")]
    p = subprocess.run(cmd, cwd=HARNESS, env=env, stdout=subprocess.PIPE, stderr=subprocess.STDOUT, text=True, errors="replace", timeout=3600)
    tr = classify_tool_output(p.stdout or "")
    if tr:
        print("VIOLATION property=%s replay=%s" % (prop, path))
        print("  what: %s" % (tr,))
        return 1
    if not os.path.exists(out):
        print("INCONCLUSIVE property=%s replay produced no report (exit %s)\n%s" % (prop, p.returncode, (p.stdout or "")[-2000:]))
        return 2
    with open(out) as f:
        rep = json.load(f)
    if rep["violation_count"] > 0:
        print("VIOLATION property=%s replay=%s" % (prop, path))
        for v in rep["violations"][:3]:
            print("  what: %s" % v.get("what", "")[:600])
        return 1
    if rep["inconclusive"]:
        print("INCONCLUSIVE property=%s %s" % (prop, rep["inconclusive"]))
        return 2
    print("replay: property held on the recorded case (%d evaluations)" % rep["evaluations"])
    return 0


def main():
    ap = argparse.ArgumentParser()
    ap.add_argument("property")
    ap.add_argument("--tier", default=None, choices=["quick", "thorough"])
    ap.add_argument("--seed", default=None, type=int)
    ap.add_argument("--replay", default=None)
    ap.add_argument("--only", default=None, help="debug: run only steps whose monitor/config matches")
    a = ap.parse_args()
    tier = a.tier or os.environ.get("VERIF_TIER") or "quick"
    if tier not in ("quick", "thorough"):
        tier = "quick"
    seed = a.seed if a.seed is not None else int(os.environ.get("VERIF_SEED", "0") or 0)
    os.environ["VERIF_SEED"] = str(seed)
    os.makedirs(BUILD, exist_ok=True)
    if a.property == "setup":
        return plans.setup(build)
    if a.replay:
        return run_replay(a.property, os.path.abspath(a.replay))
    return run_property(a.property, tier, seed, a.only)


if __name__ == "__main__":
    sys.exit(main())
