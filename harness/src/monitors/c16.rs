//! C16 — serde: canonical encodings, lossless round trip, malformed input is an error.
#![cfg(feature = "serde")]

use crate::gen;
use crate::json::Json;
use crate::oracle;
use crate::report::{guard, Report};
use crate::rng::{fingerprint, Rng};
use crate::variant::Variant;
use crate::{all_variants, Ctx};
use serde::de::{self, DeserializeOwned, Visitor};
use serde::ser;
use std::fmt;
use tlsh::FuzzyHashType;

fn strict() -> bool {
    cfg!(feature = "strict")
}
fn buffered() -> bool {
    cfg!(feature = "serde-buffered")
}

fn bytes_of<V: Variant>(h: &V::H) -> Vec<u8> {
    let mut buf = vec![0u8; V::SIZE];
    let n = h.store_into_bytes(&mut buf).unwrap_or(0);
    buf.truncate(n);
    buf
}

fn text_parse<V: Variant>(payload: &[u8]) -> Option<Vec<u8>> {
    V::H::from_str_bytes(payload, None).ok().map(|h| bytes_of::<V>(&h))
}
fn binary_parse<V: Variant>(payload: &[u8]) -> Option<Vec<u8>> {
    V::from_slice(payload).ok().map(|h| bytes_of::<V>(&h))
}

// ---------------------------------------------------------------------------
// A byte-string newtype that really asks for bytes (unlike Vec<u8>).

pub struct ByteBuf(pub Vec<u8>);
impl<'de> de::Deserialize<'de> for ByteBuf {
    fn deserialize<D: de::Deserializer<'de>>(d: D) -> Result<Self, D::Error> {
        struct Vis;
        impl<'de> Visitor<'de> for Vis {
            type Value = ByteBuf;
            fn expecting(&self, f: &mut fmt::Formatter) -> fmt::Result {
                f.write_str("bytes")
            }
            fn visit_bytes<E: de::Error>(self, v: &[u8]) -> Result<ByteBuf, E> {
                Ok(ByteBuf(v.to_vec()))
            }
            fn visit_byte_buf<E: de::Error>(self, v: Vec<u8>) -> Result<ByteBuf, E> {
                Ok(ByteBuf(v))
            }
        }
        // ask the format for what an ordinary consumer built with the same feature set asks for:
        // borrowed/transient bytes normally, an owned buffer with `serde-buffered` (formats such
        // as CBOR can deliver chunked byte strings only in the latter case)
        if buffered() {
            d.deserialize_byte_buf(Vis)
        } else {
            d.deserialize_bytes(Vis)
        }
    }
}

// ---------------------------------------------------------------------------
// Real formats

fn cbor_bytes_header(n: usize) -> Vec<u8> {
    if n < 24 {
        vec![0x40 | n as u8]
    } else if n < 256 {
        vec![0x58, n as u8]
    } else {
        vec![0x59, (n >> 8) as u8, n as u8]
    }
}

pub fn formats_value<V: Variant>(b: &[u8], rep: &mut Report) {
    let case = || Json::obj().with("variant", V::NAME).with("hash_bytes", Json::hex(b));
    let h = match V::from_array(b) {
        Ok(h) => h,
        Err(_) => {
            rep.count("not_constructible", 1);
            return;
        }
    };
    let r = guard(|| {
        let mut problems: Vec<(String, String)> = Vec::new();
        let text = String::from_utf8(oracle::encode_text(b, V::CK, true)).unwrap();
        // JSON
        match serde_json::to_string(&h) {
            Ok(j) => {
                if j != format!("\"{}\"", text) {
                    problems.push(("json-encoding".into(), format!("JSON form {} is not the quoted canonical text {}", j, text)));
                }
                match serde_json::from_str::<V::H>(&j) {
                    Ok(h2) if h2 == h => {}
                    Ok(_) => problems.push(("json-roundtrip".into(), "JSON round trip yields a different hash".into())),
                    Err(e) => problems.push(("json-roundtrip".into(), format!("JSON round trip fails: {}", e))),
                }
            }
            Err(e) => problems.push(("json-encoding".into(), format!("JSON serialization fails: {}", e))),
        }
        // serde_json::Value (a second human-readable route)
        match serde_json::to_value(&h) {
            Ok(v) => {
                if v != serde_json::Value::String(text.clone()) {
                    problems.push(("json-value".into(), "serde_json::to_value is not the canonical string".into()));
                }
                match serde_json::from_value::<V::H>(v) {
                    Ok(h2) if h2 == h => {}
                    _ => problems.push(("json-value-roundtrip".into(), "serde_json::Value round trip fails".into())),
                }
            }
            Err(e) => problems.push(("json-value".into(), format!("to_value fails: {}", e))),
        }
        // CBOR
        let mut cb = Vec::new();
        match ciborium::ser::into_writer(&h, &mut cb) {
            Ok(()) => {
                let mut want = cbor_bytes_header(b.len());
                want.extend_from_slice(b);
                if cb != want {
                    problems.push(("cbor-encoding".into(), format!("CBOR form {} is not a byte string carrying the binary form", crate::json::hex(&cb))));
                }
                match ciborium::de::from_reader::<V::H, _>(&cb[..]) {
                    Ok(h2) if h2 == h => {}
                    Ok(_) => problems.push(("cbor-roundtrip".into(), "CBOR round trip yields a different hash".into())),
                    Err(e) => problems.push(("cbor-roundtrip".into(), format!("CBOR round trip fails: {}", e))),
                }
            }
            Err(e) => problems.push(("cbor-encoding".into(), format!("CBOR serialization fails: {}", e))),
        }
        // postcard
        match postcard::to_allocvec(&h) {
            Ok(pc) => {
                let mut want = vec![b.len() as u8];
                want.extend_from_slice(b);
                if pc != want {
                    problems.push(("postcard-encoding".into(), format!("postcard form {} is not varint(len) + binary form", crate::json::hex(&pc))));
                }
                match postcard::from_bytes::<V::H>(&pc) {
                    Ok(h2) if h2 == h => {}
                    Ok(_) => problems.push(("postcard-roundtrip".into(), "postcard round trip yields a different hash".into())),
                    Err(e) => problems.push(("postcard-roundtrip".into(), format!("postcard round trip fails: {}", e))),
                }
            }
            Err(e) => problems.push(("postcard-encoding".into(), format!("postcard serialization fails: {}", e))),
        }
        problems
    });
    rep.eval(8);
    match r {
        Err(p) => rep.violation(&format!("serde|{}|formats|panic", V::NAME), &format!("panic: {} at {}", p.message, p.location), case()),
        Ok(problems) => {
            for (k, w) in problems {
                rep.violation(&format!("serde|{}|{}", V::NAME, k), &w, case());
            }
        }
    }
}

/// A possibly malformed document in one of the real formats.
pub fn document_check<V: Variant>(format: u8, doc: &[u8], rep: &mut Report) {
    let case = || {
        Json::obj()
            .with("variant", V::NAME)
            .with("format", format)
            .with("document", Json::hex(doc))
    };
    let r = guard(|| match format {
        0 => {
            let got = std::str::from_utf8(doc).ok().and_then(|s| serde_json::from_str::<V::H>(s).ok()).map(|h| bytes_of::<V>(&h));
            let payload = std::str::from_utf8(doc).ok().and_then(|s| serde_json::from_str::<String>(s).ok());
            let exp = payload.as_ref().and_then(|p| text_parse::<V>(p.as_bytes()));
            (got, exp, payload.is_some())
        }
        1 => {
            let got = ciborium::de::from_reader::<V::H, _>(doc).ok().map(|h| bytes_of::<V>(&h));
            let payload = ciborium::de::from_reader::<ByteBuf, _>(doc).ok().map(|b| b.0);
            let exp = payload.as_ref().and_then(|p| binary_parse::<V>(p));
            (got, exp, payload.is_some())
        }
        _ => {
            let got = postcard::from_bytes::<V::H>(doc).ok().map(|h| bytes_of::<V>(&h));
            let payload = postcard::from_bytes::<ByteBuf>(doc).ok().map(|b| b.0);
            let exp = payload.as_ref().and_then(|p| binary_parse::<V>(p));
            (got, exp, payload.is_some())
        }
    });
    rep.eval(1);
    let name = ["json", "cbor", "postcard"][format as usize % 3];
    match r {
        Err(p) => rep.violation(
            &format!("serde|{}|{}|panic", V::NAME, name),
            &format!("deserializing a {} document panicked: {} at {}", name, p.message, p.location),
            case(),
        ),
        Ok((got, exp, is_payload_doc)) => {
            if is_payload_doc {
                rep.count(&format!("documents:{}:carrying_a_payload", name), 1);
                if got != exp {
                    rep.violation(
                        &format!("serde|{}|{}|{}", V::NAME, name, if got.is_some() { "accepts-what-parser-rejects" } else { "rejects-what-parser-accepts" }),
                        &format!("{} document: deserialize -> {:?}, the matching parser -> {:?}", name, got.as_ref().map(|x| crate::json::hex(x)), exp.as_ref().map(|x| crate::json::hex(x))),
                        case(),
                    );
                }
                if got.is_some() {
                    rep.count(&format!("documents:{}:accepted", name), 1);
                } else {
                    rep.count(&format!("documents:{}:rejected", name), 1);
                }
            } else {
                rep.count(&format!("documents:{}:other", name), 1);
                if got.is_some() {
                    // only acceptable if it is some other spelling of an acceptable payload;
                    // we know of none: report
                    rep.violation(
                        &format!("serde|{}|{}|accepts-wrong-type", V::NAME, name),
                        &format!("{} document that is not a string / byte string was accepted", name),
                        case(),
                    );
                }
            }
        }
    }
}

fn mutate(rng: &mut Rng, doc: &[u8]) -> Vec<u8> {
    let mut d = doc.to_vec();
    match rng.below(8) {
        0 => {
            if !d.is_empty() {
                let n = rng.below(d.len() as u64) as usize;
                d.truncate(n);
            }
        }
        1 => d.push(rng.next_u8()),
        2 | 3 => {
            if !d.is_empty() {
                let p = rng.below(d.len().min(4) as u64) as usize;
                d[p] = rng.next_u8();
            }
        }
        4 => {
            if !d.is_empty() {
                let p = rng.below(d.len() as u64) as usize;
                d[p] ^= 1 << rng.below(8);
            }
        }
        5 => {
            if !d.is_empty() {
                let p = rng.below(d.len() as u64) as usize;
                d[p] = *rng.pick(&[b'G', b'"', b'\\', 0, 0xff, b'[', b'{', 0x5f, 0x9f, 0x7f]);
            }
        }
        6 => {
            if d.len() > 2 {
                let p = 1 + rng.below(d.len() as u64 - 1) as usize;
                d.remove(p);
            }
        }
        _ => {}
    }
    d
}

fn formats_variant<V: Variant>(ctx: &Ctx, rep: &mut Report) {
    let n = ctx.n(8_000, 600_000);
    for i in 0..n {
        let mut rng = ctx.rng("c16-formats", (V::INDEX as u64) << 48 | i);
        let b = gen::hash_bytes(&mut rng, V::SIZE, V::CK, V::NB, strict());
        formats_value::<V>(&b, rep);
        // documents: valid encodings of arbitrary (also strict-invalid) values, then mutated
        let sv = rng.below(3) != 0;
        let raw = gen::hash_bytes(&mut rng, V::SIZE, V::CK, V::NB, sv);
        let wp = rng.chance(3, 4);
        let text = oracle::encode_text(&raw, V::CK, wp);
        let json_doc = {
            let mut d = vec![b'"'];
            d.extend_from_slice(&text);
            d.push(b'"');
            d
        };
        let cbor_doc = {
            let mut d = cbor_bytes_header(raw.len());
            d.extend_from_slice(&raw);
            d
        };
        let cbor_chunked = {
            // indefinite-length byte string in two chunks
            let k = rng.below(raw.len() as u64 + 1) as usize;
            let mut d = vec![0x5f];
            d.extend(cbor_bytes_header(k));
            d.extend_from_slice(&raw[..k]);
            d.extend(cbor_bytes_header(raw.len() - k));
            d.extend_from_slice(&raw[k..]);
            d.push(0xff);
            d
        };
        let cbor_text = {
            let mut d = if text.len() < 24 { vec![0x60 | text.len() as u8] } else { vec![0x78, text.len() as u8] };
            d.extend_from_slice(&text);
            d
        };
        let cbor_array = {
            let mut d = if raw.len() < 24 { vec![0x80 | raw.len() as u8] } else { vec![0x98, raw.len() as u8] };
            for &x in &raw {
                if x < 24 {
                    d.push(x);
                } else {
                    d.push(0x18);
                    d.push(x);
                }
            }
            d
        };
        let pc_doc = {
            let mut d = vec![raw.len() as u8];
            d.extend_from_slice(&raw);
            d
        };
        let docs: [(u8, &Vec<u8>); 7] = [
            (0, &json_doc),
            (1, &cbor_doc),
            (1, &cbor_chunked),
            (1, &cbor_text),
            (1, &cbor_array),
            (2, &pc_doc),
            (0, &text),
        ];
        for (f, d) in docs {
            document_check::<V>(f, d, rep);
            let m = mutate(&mut rng, d);
            document_check::<V>(f, &m, rep);
        }
        {
            let s = super::c12::non_ascii_string::<V>(&mut rng);
            let doc = serde_json::to_string(&s).unwrap_or_default();
            document_check::<V>(0, doc.as_bytes(), rep);
            rep.count("documents:json:non_ascii_strings", 1);
        }
        {
            // accepted spellings wrapped in line terminators, blanks, quotes, a BOM ...: the string
            // visitor must refuse them exactly as FromStr does
            let s = super::c12::decorated_string::<V>(&mut rng);
            let doc = serde_json::to_string(&s).unwrap_or_default();
            document_check::<V>(0, doc.as_bytes(), rep);
            rep.count("documents:json:decorated_strings", 1);
        }
        for lit in ["null", "12", "[1,2]", "{}", "true", "\"\"", "\"T1\"", "1.5", "[\"T1\"]"] {
            if i == 0 {
                document_check::<V>(0, lit.as_bytes(), rep);
            }
        }
        let mut fp = b.clone();
        fp.extend_from_slice(&raw);
        fp.push(V::INDEX as u8);
        rep.distinct(fingerprint(&fp));
        if rep.want_sample() && i == 3 {
            rep.sample(
                Json::obj()
                    .with("variant", V::NAME)
                    .with("json", String::from_utf8_lossy(&json_doc).into_owned())
                    .with("cbor", Json::hex(&cbor_doc))
                    .with("postcard", Json::hex(&pc_doc)),
            );
        }
    }
}

pub fn run_formats(ctx: &Ctx, rep: &mut Report) {
    rep.rule = "seeded hash values of all five variants serialized to JSON (string and Value), CBOR (ciborium) and postcard: exact encodings (quoted canonical text / byte string carrying the binary form) and round trips; valid documents of arbitrary (also strict-invalid) values and 8 kinds of mutations of them (truncation, type tags, length prefixes, digits, CBOR indefinite chunks, text-in-binary, arrays): deserialize must not panic and must return Ok exactly when the document carries a payload the matching parser accepts; distinct by fingerprint of the values".into();
    all_variants!(formats_variant, ctx, rep);
    for f in ["json", "cbor", "postcard"] {
        rep.floor(&format!("documents:{}:accepted", f), 10);
        rep.floor(&format!("documents:{}:rejected", f), 10);
    }
}

// ---------------------------------------------------------------------------
// Scripted mock deserializer / serializer

#[derive(Clone, Debug, PartialEq)]
pub enum Event {
    Str,
    BorrowedStr,
    String,
    Bytes,
    BorrowedBytes,
    ByteBuf,
    U8,
    U64,
    I64,
    F64,
    Bool,
    Char,
    Unit,
    None,
    Some,
    Newtype,
    SeqU8,
    Map,
}

pub const EVENTS: [Event; 18] = [
    Event::Str, Event::BorrowedStr, Event::String, Event::Bytes, Event::BorrowedBytes, Event::ByteBuf,
    Event::U8, Event::U64, Event::I64, Event::F64, Event::Bool, Event::Char, Event::Unit, Event::None,
    Event::Some, Event::Newtype, Event::SeqU8, Event::Map,
];

#[derive(Debug)]
pub struct MockError(String);
impl fmt::Display for MockError {
    fn fmt(&self, f: &mut fmt::Formatter) -> fmt::Result {
        f.write_str(&self.0)
    }
}
impl std::error::Error for MockError {}
impl de::Error for MockError {
    fn custom<T: fmt::Display>(msg: T) -> Self {
        MockError(msg.to_string())
    }
}
impl ser::Error for MockError {
    fn custom<T: fmt::Display>(msg: T) -> Self {
        MockError(msg.to_string())
    }
}

pub struct MockDe<'a> {
    pub hr: bool,
    pub event: Event,
    pub payload: &'a [u8],
    pub requested: &'a std::cell::RefCell<String>,
    pub depth: u8,
}

struct U8Seq<'a> {
    data: &'a [u8],
    pos: usize,
}
impl<'de, 'a> de::SeqAccess<'de> for U8Seq<'a> {
    type Error = MockError;
    fn next_element_seed<T: de::DeserializeSeed<'de>>(&mut self, seed: T) -> Result<Option<T::Value>, MockError> {
        if self.pos >= self.data.len() {
            return Ok(None);
        }
        let v = self.data[self.pos];
        self.pos += 1;
        seed.deserialize(de::value::U8Deserializer::<MockError>::new(v)).map(Some)
    }
}
struct EmptyMap;
impl<'de> de::MapAccess<'de> for EmptyMap {
    type Error = MockError;
    fn next_key_seed<K: de::DeserializeSeed<'de>>(&mut self, _seed: K) -> Result<Option<K::Value>, MockError> {
        Ok(None)
    }
    fn next_value_seed<T: de::DeserializeSeed<'de>>(&mut self, _seed: T) -> Result<T::Value, MockError> {
        Err(MockError("no value".into()))
    }
}

impl<'de, 'a: 'de> MockDe<'a> {
    fn fire<Vv: Visitor<'de>>(self, method: &str, visitor: Vv) -> Result<Vv::Value, MockError> {
        {
            let mut r = self.requested.borrow_mut();
            if r.is_empty() {
                r.push_str(method);
            }
        }
        let p = self.payload;
        let as_str = || std::str::from_utf8(p).map_err(|_| MockError("payload is not UTF-8".into()));
        match self.event {
            Event::Str => visitor.visit_str(as_str()?),
            Event::BorrowedStr => visitor.visit_borrowed_str(as_str()?),
            Event::String => visitor.visit_string(as_str()?.to_string()),
            Event::Bytes => visitor.visit_bytes(p),
            Event::BorrowedBytes => visitor.visit_borrowed_bytes(p),
            Event::ByteBuf => visitor.visit_byte_buf(p.to_vec()),
            Event::U8 => visitor.visit_u8(p.first().copied().unwrap_or(0)),
            Event::U64 => visitor.visit_u64(p.iter().fold(0u64, |a, &b| a.wrapping_mul(257).wrapping_add(b as u64))),
            Event::I64 => visitor.visit_i64(-(p.len() as i64)),
            Event::F64 => visitor.visit_f64(p.len() as f64 + 0.5),
            Event::Bool => visitor.visit_bool(p.len() % 2 == 0),
            Event::Char => visitor.visit_char(p.first().map(|&c| (c & 0x7f) as char).unwrap_or('T')),
            Event::Unit => visitor.visit_unit(),
            Event::None => visitor.visit_none(),
            Event::Some => {
                if self.depth > 2 {
                    return visitor.visit_unit();
                }
                visitor.visit_some(MockDe { hr: self.hr, event: Event::Bytes, payload: p, requested: self.requested, depth: self.depth + 1 })
            }
            Event::Newtype => {
                if self.depth > 2 {
                    return visitor.visit_unit();
                }
                visitor.visit_newtype_struct(MockDe { hr: self.hr, event: Event::Str, payload: p, requested: self.requested, depth: self.depth + 1 })
            }
            Event::SeqU8 => visitor.visit_seq(U8Seq { data: p, pos: 0 }),
            Event::Map => visitor.visit_map(EmptyMap),
        }
    }
}

macro_rules! mock_methods {
    ($($m:ident),*) => {
        $(fn $m<Vv: Visitor<'de>>(self, visitor: Vv) -> Result<Vv::Value, MockError> {
            self.fire(stringify!($m), visitor)
        })*
    };
}

impl<'de, 'a: 'de> de::Deserializer<'de> for MockDe<'a> {
    type Error = MockError;
    mock_methods!(
        deserialize_any, deserialize_bool, deserialize_i8, deserialize_i16, deserialize_i32, deserialize_i64,
        deserialize_u8, deserialize_u16, deserialize_u32, deserialize_u64, deserialize_f32, deserialize_f64,
        deserialize_char, deserialize_str, deserialize_string, deserialize_bytes, deserialize_byte_buf,
        deserialize_option, deserialize_unit, deserialize_seq, deserialize_map, deserialize_identifier,
        deserialize_ignored_any
    );
    fn deserialize_unit_struct<Vv: Visitor<'de>>(self, _n: &'static str, v: Vv) -> Result<Vv::Value, MockError> {
        self.fire("deserialize_unit_struct", v)
    }
    fn deserialize_newtype_struct<Vv: Visitor<'de>>(self, _n: &'static str, v: Vv) -> Result<Vv::Value, MockError> {
        self.fire("deserialize_newtype_struct", v)
    }
    fn deserialize_tuple<Vv: Visitor<'de>>(self, _l: usize, v: Vv) -> Result<Vv::Value, MockError> {
        self.fire("deserialize_tuple", v)
    }
    fn deserialize_tuple_struct<Vv: Visitor<'de>>(self, _n: &'static str, _l: usize, v: Vv) -> Result<Vv::Value, MockError> {
        self.fire("deserialize_tuple_struct", v)
    }
    fn deserialize_struct<Vv: Visitor<'de>>(self, _n: &'static str, _f: &'static [&'static str], v: Vv) -> Result<Vv::Value, MockError> {
        self.fire("deserialize_struct", v)
    }
    fn deserialize_enum<Vv: Visitor<'de>>(self, _n: &'static str, _f: &'static [&'static str], v: Vv) -> Result<Vv::Value, MockError> {
        self.fire("deserialize_enum", v)
    }
    fn is_human_readable(&self) -> bool {
        self.hr
    }
}

pub const PAYLOAD_KINDS: [&str; 10] = [
    "valid-text", "valid-text-bare-lowercase", "valid-bytes", "strict-invalid-checksum-bytes",
    "strict-invalid-length-bytes", "strict-invalid-text", "wrong-length", "bad-digit", "non-utf8",
    "utf8-multibyte-of-accepted-byte-length",
];

pub fn gen_payload<V: Variant>(rng: &mut Rng, kind: usize) -> Vec<u8> {
    let mut b = gen::hash_bytes(rng, V::SIZE, V::CK, V::NB, true);
    match kind {
        0 => oracle::encode_text(&b, V::CK, true),
        1 => oracle::encode_text(&b, V::CK, false).to_ascii_lowercase(),
        2 => b,
        3 => {
            b[0] = if V::NB == 48 { rng.range(49, 255) as u8 } else { rng.next_u8() };
            b
        }
        4 => {
            b[V::CK] = rng.range(170, 255) as u8;
            b
        }
        5 => {
            if rng.chance(1, 2) && V::NB == 48 {
                b[0] = rng.range(49, 255) as u8;
            } else {
                b[V::CK] = rng.range(170, 255) as u8;
            }
            oracle::encode_text(&b, V::CK, true)
        }
        6 => {
            let mut t = if rng.chance(1, 2) { oracle::encode_text(&b, V::CK, true) } else { b };
            match rng.below(3) {
                0 => {
                    t.pop();
                }
                1 => t.push(b'0'),
                _ => t.clear(),
            }
            t
        }
        7 => {
            let mut t = oracle::encode_text(&b, V::CK, true);
            let p = 2 + rng.below(t.len() as u64 - 2) as usize;
            t[p] = b'G';
            t
        }
        8 => {
            let mut t = if rng.chance(1, 2) { oracle::encode_text(&b, V::CK, true) } else { rng.bytes(V::SIZE) };
            let p = rng.below(t.len() as u64) as usize;
            t[p] = 0xff;
            t
        }
        _ => super::c12::non_ascii_string::<V>(rng).into_bytes(),
    }
}

pub fn mock_check<V: Variant>(hr: bool, event: &Event, payload: &[u8], rep: &mut Report)
where
    V::H: DeserializeOwned,
{
    let case = || {
        Json::obj()
            .with("variant", V::NAME)
            .with("human_readable", hr)
            .with("event", format!("{:?}", event))
            .with("payload", Json::hex(payload))
    };
    let requested = std::cell::RefCell::new(String::new());
    let r = guard(|| {
        let d = MockDe { hr, event: event.clone(), payload, requested: &requested, depth: 0 };
        <V::H as de::Deserialize>::deserialize(d).ok().map(|h| bytes_of::<V>(&h))
    });
    rep.eval(1);
    rep.seen("requested-methods", &format!("hr={}:{}", hr, requested.borrow()));
    let got = match r {
        Err(p) => {
            rep.violation(
                &format!("serde|{}|mock|panic|hr={}|{:?}", V::NAME, hr, event),
                &format!("deserialize panicked on visitor event {:?} (human_readable = {}): {} at {}", event, hr, p.message, p.location),
                case(),
            );
            return;
        }
        Ok(g) => g,
    };
    let t = text_parse::<V>(payload);
    let b = binary_parse::<V>(payload);
    let strlike = matches!(event, Event::Str | Event::BorrowedStr | Event::String);
    let byteslike = matches!(event, Event::Bytes | Event::BorrowedBytes | Event::ByteBuf);
    let utf8 = std::str::from_utf8(payload).is_ok();
    let class;
    let ok = if hr && strlike {
        class = "matching";
        // (a non-UTF-8 payload cannot be delivered as a string event: the mock itself errors)
        if utf8 { got == t } else { got.is_none() }
    } else if !hr && byteslike {
        class = "matching";
        got == b
    } else if strlike || byteslike || *event == Event::SeqU8 || *event == Event::Some || *event == Event::Newtype {
        class = "tolerated";
        // other spellings may be rejected, or accepted only as what a parser makes of the payload
        match &got {
            None => true,
            Some(v) => Some(v) == t.as_ref() || Some(v) == b.as_ref(),
        }
    } else {
        class = "wrong-type";
        got.is_none()
    };
    rep.count(&format!("mock:{}:{}", class, if got.is_some() { "accepted" } else { "rejected" }), 1);
    if !ok {
        rep.violation(
            &format!("serde|{}|mock|{}|hr={}|{:?}", V::NAME, class, hr, event),
            &format!(
                "visitor event {:?} (human_readable = {}): deserialize -> {:?}; text parser -> {:?}, binary parser -> {:?}",
                event,
                hr,
                got.as_ref().map(|x| crate::json::hex(x)),
                t.as_ref().map(|x| crate::json::hex(x)),
                b.as_ref().map(|x| crate::json::hex(x))
            ),
            case(),
        );
    }
}

// A mock serializer that accepts only serialize_str / serialize_bytes and records them.
pub enum Emitted {
    Str(String),
    Bytes(Vec<u8>),
    Other(&'static str),
}
pub struct MockSer {
    pub hr: bool,
}
macro_rules! ser_other {
    ($($m:ident($t:ty)),*) => {
        $(fn $m(self, _v: $t) -> Result<Emitted, MockError> { Ok(Emitted::Other(stringify!($m))) })*
    };
}
impl ser::Serializer for MockSer {
    type Ok = Emitted;
    type Error = MockError;
    type SerializeSeq = ser::Impossible<Emitted, MockError>;
    type SerializeTuple = ser::Impossible<Emitted, MockError>;
    type SerializeTupleStruct = ser::Impossible<Emitted, MockError>;
    type SerializeTupleVariant = ser::Impossible<Emitted, MockError>;
    type SerializeMap = ser::Impossible<Emitted, MockError>;
    type SerializeStruct = ser::Impossible<Emitted, MockError>;
    type SerializeStructVariant = ser::Impossible<Emitted, MockError>;
    ser_other!(serialize_bool(bool), serialize_i8(i8), serialize_i16(i16), serialize_i32(i32), serialize_i64(i64),
        serialize_u8(u8), serialize_u16(u16), serialize_u32(u32), serialize_u64(u64), serialize_f32(f32),
        serialize_f64(f64), serialize_char(char));
    fn serialize_str(self, v: &str) -> Result<Emitted, MockError> {
        Ok(Emitted::Str(v.to_string()))
    }
    fn serialize_bytes(self, v: &[u8]) -> Result<Emitted, MockError> {
        Ok(Emitted::Bytes(v.to_vec()))
    }
    fn serialize_none(self) -> Result<Emitted, MockError> {
        Ok(Emitted::Other("serialize_none"))
    }
    fn serialize_some<T: ?Sized + ser::Serialize>(self, _v: &T) -> Result<Emitted, MockError> {
        Ok(Emitted::Other("serialize_some"))
    }
    fn serialize_unit(self) -> Result<Emitted, MockError> {
        Ok(Emitted::Other("serialize_unit"))
    }
    fn serialize_unit_struct(self, _n: &'static str) -> Result<Emitted, MockError> {
        Ok(Emitted::Other("serialize_unit_struct"))
    }
    fn serialize_unit_variant(self, _n: &'static str, _i: u32, _v: &'static str) -> Result<Emitted, MockError> {
        Ok(Emitted::Other("serialize_unit_variant"))
    }
    fn serialize_newtype_struct<T: ?Sized + ser::Serialize>(self, _n: &'static str, _v: &T) -> Result<Emitted, MockError> {
        Ok(Emitted::Other("serialize_newtype_struct"))
    }
    fn serialize_newtype_variant<T: ?Sized + ser::Serialize>(self, _n: &'static str, _i: u32, _v: &'static str, _x: &T) -> Result<Emitted, MockError> {
        Ok(Emitted::Other("serialize_newtype_variant"))
    }
    fn serialize_seq(self, _l: Option<usize>) -> Result<Self::SerializeSeq, MockError> {
        Err(MockError("seq".into()))
    }
    fn serialize_tuple(self, _l: usize) -> Result<Self::SerializeTuple, MockError> {
        Err(MockError("tuple".into()))
    }
    fn serialize_tuple_struct(self, _n: &'static str, _l: usize) -> Result<Self::SerializeTupleStruct, MockError> {
        Err(MockError("tuple_struct".into()))
    }
    fn serialize_tuple_variant(self, _n: &'static str, _i: u32, _v: &'static str, _l: usize) -> Result<Self::SerializeTupleVariant, MockError> {
        Err(MockError("tuple_variant".into()))
    }
    fn serialize_map(self, _l: Option<usize>) -> Result<Self::SerializeMap, MockError> {
        Err(MockError("map".into()))
    }
    fn serialize_struct(self, _n: &'static str, _l: usize) -> Result<Self::SerializeStruct, MockError> {
        Err(MockError("struct".into()))
    }
    fn serialize_struct_variant(self, _n: &'static str, _i: u32, _v: &'static str, _l: usize) -> Result<Self::SerializeStructVariant, MockError> {
        Err(MockError("struct_variant".into()))
    }
    fn is_human_readable(&self) -> bool {
        self.hr
    }
}

pub fn mock_ser_check<V: Variant>(b: &[u8], rep: &mut Report) {
    let case = || Json::obj().with("variant", V::NAME).with("hash_bytes", Json::hex(b)).with("mock_serializer", true);
    let h = match V::from_array(b) {
        Ok(h) => h,
        Err(_) => return,
    };
    for hr in [true, false] {
        let r = guard(|| ser::Serialize::serialize(&h, MockSer { hr }));
        rep.eval(1);
        let ok = match &r {
            Ok(Ok(Emitted::Str(s))) => hr && s.as_bytes() == oracle::encode_text(b, V::CK, true).as_slice(),
            Ok(Ok(Emitted::Bytes(v))) => !hr && v == b,
            _ => false,
        };
        if !ok {
            rep.violation(
                &format!("serde|{}|mock-serializer|hr={}", V::NAME, hr),
                &format!(
                    "serialize with is_human_readable = {} emitted {}",
                    hr,
                    match r {
                        Ok(Ok(Emitted::Str(s))) => format!("str {:?}", s),
                        Ok(Ok(Emitted::Bytes(v))) => format!("bytes {}", crate::json::hex(&v)),
                        Ok(Ok(Emitted::Other(m))) => format!("a call to {}", m),
                        Ok(Err(e)) => format!("error {}", e),
                        Err(p) => format!("a panic: {}", p.message),
                    }
                ),
                case(),
            );
        }
    }
}

fn mock_variant<V: Variant>(ctx: &Ctx, rep: &mut Report)
where
    V::H: DeserializeOwned,
{
    if ctx.scale < 0.2 && V::INDEX as u64 % 5 != ctx.shard % 5 {
        // reduced (interpreter) runs: one variant per shard
        return;
    }
    let n = ctx.n(1_500, 100_000);
    for i in 0..n {
        let mut rng = ctx.rng("c16-mock", (V::INDEX as u64) << 48 | i);
        for kind in 0..PAYLOAD_KINDS.len() {
            let payload = gen_payload::<V>(&mut rng, kind);
            for hr in [true, false] {
                for ev in EVENTS.iter() {
                    mock_check::<V>(hr, ev, &payload, rep);
                    rep.seen("cells", &format!("{}:{}:{:?}", hr, PAYLOAD_KINDS[kind], ev));
                }
            }
            let mut fp = payload.clone();
            fp.push(V::INDEX as u8);
            rep.distinct(fingerprint(&fp));
        }
        let b = gen::hash_bytes(&mut rng, V::SIZE, V::CK, V::NB, strict());
        mock_ser_check::<V>(&b, rep);
        if rep.want_sample() && i == 0 {
            rep.sample(Json::obj().with("variant", V::NAME).with("events", EVENTS.len()).with("payload_kinds", PAYLOAD_KINDS.iter().map(|s| Json::s(s)).collect::<Vec<_>>()));
        }
    }
}

pub fn run_mock(ctx: &Ctx, rep: &mut Report) {
    rep.rule = "a scripted mock Deserializer: is_human_readable in {true,false} x 18 visitor events (str / borrowed str / string / bytes / borrowed bytes / byte_buf / integers / float / bool / char / unit / none / some / newtype / seq of u8 / map) x 10 payload classes (valid text, bare lower-case text, valid bytes, strict-invalid checksum bytes, strict-invalid length bytes, strict-invalid text, wrong length, bad digit, non-UTF-8) x 5 variants, every call under catch_unwind: the matching event class must agree exactly with the matching parser, other spellings may only be rejected or accepted as what a parser makes of the payload, wrong types must be errors; plus a mock Serializer recording what is emitted for both is_human_readable values; distinct by fingerprint of the payload".into();
    all_variants!(mock_variant, ctx, rep);
    rep.set_floor("cells", (2 * 18 * PAYLOAD_KINDS.len()) as u64);
    let _ = buffered();
    rep.floor("mock:matching:accepted", 10);
    rep.floor("mock:matching:rejected", 10);
    rep.floor("mock:wrong-type:rejected", 10);
    rep.count(if buffered() { "build:serde-buffered" } else { "build:serde" }, 1);
}

fn replay_variant<V: Variant>(name: &str, case: &Json, rep: &mut Report)
where
    V::H: DeserializeOwned,
{
    if name != V::NAME {
        return;
    }
    if let (Some(f), Some(d)) = (case.get("format").and_then(|x| x.as_u64()), case.get_hex("document")) {
        document_check::<V>(f as u8, &d, rep);
    } else if let (Some(hr), Some(ev), Some(p)) = (
        case.get("human_readable").and_then(|x| x.as_bool()),
        case.get("event").and_then(|x| x.as_str()),
        case.get_hex("payload"),
    ) {
        for e in EVENTS.iter() {
            if format!("{:?}", e) == ev {
                mock_check::<V>(hr, e, &p, rep);
            }
        }
    } else if let Some(b) = case.get_hex("hash_bytes") {
        if b.len() == V::SIZE {
            if case.get("mock_serializer").is_some() {
                mock_ser_check::<V>(&b, rep);
            } else {
                formats_value::<V>(&b, rep);
            }
        }
    }
}

pub fn replay(case: &Json, rep: &mut Report) -> bool {
    let v = match case.get("variant").and_then(|v| v.as_str()) {
        Some(v) => v,
        None => return false,
    };
    all_variants!(replay_variant, v, case, rep);
    true
}
