//! A counting global allocator with a per-thread observation window (C18).
//!
//! The counters are plain thread-local `Cell`s with const initialisers and no
//! destructors, so touching them from inside the allocator never allocates.

use std::alloc::{GlobalAlloc, Layout, System};
use std::cell::Cell;

thread_local! {
    static WINDOW: Cell<bool> = const { Cell::new(false) };
    static ALLOCS: Cell<u64> = const { Cell::new(0) };
    static REALLOCS: Cell<u64> = const { Cell::new(0) };
    static DEALLOCS: Cell<u64> = const { Cell::new(0) };
    static BYTES: Cell<u64> = const { Cell::new(0) };
}

pub struct CountingAllocator;

unsafe impl GlobalAlloc for CountingAllocator {
    unsafe fn alloc(&self, layout: Layout) -> *mut u8 {
        note(&ALLOCS, layout.size());
        System.alloc(layout)
    }
    unsafe fn alloc_zeroed(&self, layout: Layout) -> *mut u8 {
        note(&ALLOCS, layout.size());
        System.alloc_zeroed(layout)
    }
    unsafe fn realloc(&self, ptr: *mut u8, layout: Layout, new_size: usize) -> *mut u8 {
        note(&REALLOCS, new_size);
        System.realloc(ptr, layout, new_size)
    }
    unsafe fn dealloc(&self, ptr: *mut u8, layout: Layout) {
        let _ = WINDOW.try_with(|w| {
            if w.get() {
                let _ = DEALLOCS.try_with(|c| c.set(c.get() + 1));
            }
        });
        System.dealloc(ptr, layout)
    }
}

#[inline]
fn note(counter: &'static std::thread::LocalKey<Cell<u64>>, size: usize) {
    let _ = WINDOW.try_with(|w| {
        if w.get() {
            let _ = counter.try_with(|c| c.set(c.get() + 1));
            let _ = BYTES.try_with(|c| c.set(c.get() + size as u64));
        }
    });
}

#[derive(Clone, Copy, Debug, Default, PartialEq, Eq)]
pub struct Counts {
    pub allocs: u64,
    pub reallocs: u64,
    pub deallocs: u64,
    pub bytes: u64,
}

/// Run `f` with the window open on this thread; returns its result and what the allocator saw.
pub fn observe<T>(f: impl FnOnce() -> T) -> (T, Counts) {
    ALLOCS.with(|c| c.set(0));
    REALLOCS.with(|c| c.set(0));
    DEALLOCS.with(|c| c.set(0));
    BYTES.with(|c| c.set(0));
    WINDOW.with(|w| w.set(true));
    let r = f();
    WINDOW.with(|w| w.set(false));
    (
        r,
        Counts {
            allocs: ALLOCS.with(|c| c.get()),
            reallocs: REALLOCS.with(|c| c.get()),
            deallocs: DEALLOCS.with(|c| c.get()),
            bytes: BYTES.with(|c| c.get()),
        },
    )
}
