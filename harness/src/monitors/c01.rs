//! C01 — generated hashes equal the TLSH reference algorithm.

use crate::gen;
use crate::json::Json;
use crate::oracle::{self, Opts, RefErr, RefHash, RefState};
use crate::report::{guard, Report};
use crate::rng::{fingerprint, Rng};
use crate::variant::{gen_err_name, options, Parts, Variant};
use crate::{all_variants, Ctx};
use tlsh::verif::GeneratorState;
use tlsh::{GeneratorError, GeneratorType};

/// All 32 option settings natively; a covering handful under an interpreter (reduced mode).
pub fn opt_selected(o: u8) -> bool {
    !gen::small() || matches!(o, 0 | 3 | 28 | 30)
}

pub fn outcome_name(r: &Result<Parts, GeneratorError>) -> &'static str {
    match r {
        Ok(_) => "Ok",
        Err(e) => gen_err_name(e),
    }
}

pub fn ref_outcome_name(r: &Result<RefHash, RefErr>) -> &'static str {
    match r {
        Ok(_) => "Ok",
        Err(e) => e.name(),
    }
}

pub fn parts_json(p: &Parts) -> Json {
    Json::obj()
        .with("checksum", Json::hex(&p.cs))
        .with("length_code", p.lv)
        .with("qratios", p.q)
        .with("body", Json::hex(&p.body))
}

pub fn ref_json(p: &RefHash) -> Json {
    Json::obj()
        .with("checksum", Json::hex(&p.cs))
        .with("length_code", p.lv)
        .with("qratios", p.q)
        .with("body", Json::hex(&p.body))
}

/// Which parts differ between the crate's and the model's successful results.
pub fn diff_parts(got: &Parts, exp: &RefHash) -> String {
    let mut d = Vec::new();
    if got.cs != exp.cs {
        d.push("checksum");
    }
    if got.lv != exp.lv {
        d.push("length");
    }
    if got.q != exp.q {
        d.push("qratios");
    }
    if got.body != exp.body {
        d.push("body");
    }
    d.join("+")
}

/// Compare one finalization against the model.  Returns the class of mismatch.
pub fn compare_outcome(
    got: &Result<Parts, GeneratorError>,
    exp: &Result<RefHash, RefErr>,
) -> Option<String> {
    match (got, exp) {
        (Ok(g), Ok(e)) => {
            let d = diff_parts(g, e);
            if d.is_empty() {
                None
            } else {
                Some(format!("ok-differs:{}", d))
            }
        }
        (Err(g), Err(e)) => {
            if gen_err_name(g) == e.name() {
                None
            } else {
                Some(format!("exp={}:got={}", e.name(), gen_err_name(g)))
            }
        }
        (g, e) => Some(format!(
            "exp={}:got={}",
            ref_outcome_name(e),
            outcome_name(g)
        )),
    }
}

pub fn state_json(st: &GeneratorState) -> Json {
    let mut b = Vec::with_capacity(1024);
    for x in st.buckets.iter() {
        b.extend_from_slice(&x.to_le_bytes());
    }
    Json::obj()
        .with("buckets_le32", Json::hex(&b))
        .with("len", st.len)
        .with("checksum", Json::hex(&st.checksum))
        .with("tail", Json::hex(&st.tail))
        .with("tail_len", st.tail_len)
}

pub fn state_from_json(j: &Json) -> Option<GeneratorState> {
    let b = j.get_hex("buckets_le32")?;
    if b.len() != 1024 {
        return None;
    }
    let mut buckets = [0u32; 256];
    for (i, c) in b.chunks(4).enumerate() {
        buckets[i] = u32::from_le_bytes(c.try_into().ok()?);
    }
    let cs = j.get_hex("checksum")?;
    let tail = j.get_hex("tail")?;
    Some(GeneratorState {
        buckets,
        len: j.get("len")?.as_u64()? as u32,
        checksum: cs.as_slice().try_into().ok()?,
        tail: tail.as_slice().try_into().ok()?,
        tail_len: j.get("tail_len")?.as_u64()? as u32,
    })
}

/// Model state equivalent to an injected generator state.
pub fn ref_from_state(st: &GeneratorState, nb_map: usize) -> RefState {
    let mut last = [0u8; 4];
    let nlast = st.tail_len as usize;
    last[..nlast].copy_from_slice(&st.tail[..nlast]);
    RefState {
        nb_map,
        b: st.buckets,
        cs: st.checksum,
        n: st.len as u64 + st.tail_len as u64,
        last,
        nlast,
    }
}

// ---------------------------------------------------------------------------
// API level

fn api_one<V: Variant>(
    data: &[u8],
    st48: &RefState,
    st256: &RefState,
    rep: &mut Report,
    nontrivial: &mut bool,
) {
    let st = if V::NB == 48 { st48 } else { st256 };
    let r = guard(|| {
        let mut g = V::new_gen();
        g.update(data);
        let plen = g.processed_len();
        let mut outs = Vec::with_capacity(32);
        for o in 0..32u8 {
            if !opt_selected(o) {
                outs.push(Err(GeneratorError::TooSmallInput));
                continue;
            }
            outs.push(
                g.finalize_with_options(&options(Opts(o)))
                    .map(|h| V::parts(&h)),
            );
        }
        let hb = V::hash_buf(data).map(|h| V::parts(&h));
        let fin = g.finalize().map(|h| V::parts(&h));
        let def = g
            .finalize_with_options(&Default::default())
            .map(|h| V::parts(&h));
        (plen, outs, hb, fin, def)
    });
    let case = || {
        Json::obj()
            .with("variant", V::NAME)
            .with("data", Json::hex(data))
    };
    let (plen, outs, hb, fin, def) = match r {
        Ok(x) => x,
        Err(p) => {
            rep.violation(
                &format!("api|{}|panic", V::NAME),
                &format!("panic while hashing: {} at {}", p.message, p.location),
                case(),
            );
            return;
        }
    };
    if plen != Some(data.len() as u32) {
        rep.violation(
            &format!("api|{}|processed_len", V::NAME),
            &format!("processed_len() = {:?} after {} bytes", plen, data.len()),
            case(),
        );
    }
    for o in 0..32u8 {
        if !opt_selected(o) {
            continue;
        }
        rep.eval(1);
        let exp = match st.finalize(V::NB, V::CK, Opts(o)) {
            Some(e) => e,
            None => {
                rep.count("reference_undefined_skipped", 1);
                continue;
            }
        };
        let got = &outs[o as usize];
        if !matches!(exp, Err(RefErr::TooSmall)) {
            *nontrivial = true;
        }
        rep.count(&format!("{}:{}", V::NAME, ref_outcome_name(&exp)), 1);
        if let Some(class) = compare_outcome(got, &exp) {
            rep.violation(
                &format!(
                    "api|{}|{}|{}",
                    V::NAME,
                    if Opts(o).conservative() { "conservative" } else { "optimistic" },
                    class
                ),
                &format!(
                    "{} bytes, options {}: crate {} vs reference {}",
                    data.len(),
                    Opts(o).describe(),
                    match got {
                        Ok(p) => format!("Ok({})", crate::json::hex(&p.bytes())),
                        Err(e) => gen_err_name(e).to_string(),
                    },
                    match &exp {
                        Ok(p) => format!("Ok({})", crate::json::hex(&p.bytes())),
                        Err(e) => e.name().to_string(),
                    }
                ),
                case().with("options", o),
            );
        }
    }
    // hash_buf / finalize() == finalize_with_options(default options)
    if hb != def || fin != def {
        rep.violation(
            &format!("api|{}|hash_buf-vs-finalize", V::NAME),
            "hash_buf_for / finalize() differ from finalize_with_options(default)",
            case(),
        );
    }
    rep.eval(2);
}

pub fn api_check(data: &[u8], rep: &mut Report) -> bool {
    let mut st48 = RefState::new(48);
    st48.update(data);
    let mut st256 = RefState::new(256);
    st256.update(data);
    let mut nontrivial = false;
    all_variants!(api_one, data, &st48, &st256, rep, &mut nontrivial);
    // tlsh::hash_buf == hash_buf_for::<Normal>
    let a = guard(|| tlsh::hash_buf(data).map(|h| h.to_string()));
    let b = guard(|| tlsh::hash_buf_for::<tlsh::hashes::Normal>(data).map(|h| h.to_string()));
    match (a, b) {
        (Ok(a), Ok(b)) if a == b => {}
        _ => rep.violation(
            "api|hash_buf-vs-hash_buf_for",
            "tlsh::hash_buf differs from hash_buf_for::<Normal>",
            Json::obj().with("data", Json::hex(data)),
        ),
    }
    nontrivial
}

pub fn run_api(ctx: &Ctx, rep: &mut Report) {
    rep.rule = "seeded byte strings (length mixture biased to branch thresholds x 7 content families) x 5 variants x 32 option settings, each compared with the independent reference model; a case is non-trivial if some (variant, options) pair is accepted or rejected for a bucket reason; distinct by 64-bit fingerprint of the input".into();
    let n = ctx.n(40_000, 1_000_000);
    let mut prev: Option<Vec<u8>> = None;
    for i in 0..n {
        let mut rng = ctx.rng("c01-api", i);
        let allow_big = ctx.thorough() || i % 512 == 0;
        let (data, fam) = gen::input(&mut rng, allow_big, prev.as_deref());
        rep.count(&format!("family:{}", gen::FAMILIES[fam]), 1);
        let nontrivial = api_check(&data, rep);
        if nontrivial {
            rep.distinct(fingerprint(&data));
        }
        if data.len() >= 65536 {
            rep.count("inputs>=64KiB", 1);
        }
        if rep.want_sample() && data.len() > 20 && data.len() < 200 {
            rep.sample(
                Json::obj()
                    .with("input", Json::hex(&data))
                    .with("family", gen::FAMILIES[fam])
                    .with(
                        "normal_default",
                        match tlsh::hash_buf(&data) {
                            Ok(h) => h.to_string(),
                            Err(e) => gen_err_name(&e).to_string(),
                        },
                    ),
            );
        }
        prev = Some(data);
    }
    if ctx.scale >= 0.2 {
        for v in ["Short", "Normal", "Long"] {
            for k in ["Ok", "TooSmallInput", "BucketsAreThreeQuarterEmpty", "BucketsAreHalfEmpty"] {
                rep.floor(&format!("{}:{}", v, k), 1);
            }
        }
    }
}

// ---------------------------------------------------------------------------
// State level (hook H2)

fn state_one<V: Variant>(st: &GeneratorState, rep: &mut Report) {
    let rs = ref_from_state(st, if V::NB == 48 { 48 } else { 256 });
    let r = guard(|| {
        let g = V::gen_from_state(st);
        let mut outs = Vec::with_capacity(32);
        for o in 0..32u8 {
            if !opt_selected(o) {
                outs.push(Err(GeneratorError::TooSmallInput));
                continue;
            }
            outs.push(
                g.finalize_with_options(&options(Opts(o)))
                    .map(|h| V::parts(&h)),
            );
        }
        (g.processed_len(), outs)
    });
    let case = || {
        Json::obj()
            .with("variant", V::NAME)
            .with("state", state_json(st))
    };
    let (plen, outs) = match r {
        Ok(x) => x,
        Err(p) => {
            rep.violation(
                &format!("state|{}|panic", V::NAME),
                &format!("panic in finalize from injected state: {} at {}", p.message, p.location),
                case(),
            );
            return;
        }
    };
    let n = rs.n;
    let exp_len = if n < (1u64 << 32) { Some(n as u32) } else { None };
    if plen != exp_len {
        rep.violation(
            &format!("state|{}|processed_len", V::NAME),
            &format!("processed_len() = {:?}, state holds {} bytes", plen, n),
            case(),
        );
    }
    // coverage classification on the effective buckets
    let eff = &st.buckets[..V::NB];
    let mut s = eff.to_vec();
    s.sort_unstable();
    let (q1, q2, q3) = (s[V::NB / 4 - 1], s[V::NB / 2 - 1], s[V::NB - V::NB / 4 - 1]);
    if q3 >= 1 << 24 {
        rep.count("state:q3>=2^24", 1);
    }
    if q3 >= 1 << 31 {
        rep.count("state:q3>=2^31", 1);
    }
    if q1 as u64 * 100 >= 1 << 32 {
        rep.count("state:q1*100_wraps_u32", 1);
    }
    let ties = eff.iter().filter(|&&x| x == q1 || x == q2 || x == q3).count();
    if ties > 3 {
        rep.count("state:ties_at_quartile", 1);
    }
    let mut q_int = None;
    let mut q_f32 = None;
    for o in 0..32u8 {
        if !opt_selected(o) {
            continue;
        }
        rep.eval(1);
        let exp = match rs.finalize(V::NB, V::CK, Opts(o)) {
            Some(e) => e,
            None => {
                rep.count("reference_undefined_skipped", 1);
                continue;
            }
        };
        let got = &outs[o as usize];
        if let Ok(e) = &exp {
            if o & !2 == 28 {
                // most permissive, either Q mode
                if Opts(o).intq() {
                    q_int = Some(e.q);
                } else {
                    q_f32 = Some(e.q);
                }
            }
        }
        rep.count(&format!("state:{}", ref_outcome_name(&exp)), 1);
        if let Some(class) = compare_outcome(got, &exp) {
            rep.violation(
                &format!(
                    "state|{}|{}|{}",
                    V::NAME,
                    if Opts(o).intq() { "intq" } else { "f32q" },
                    class
                ),
                &format!(
                    "injected state (n = {}), options {}: crate {} vs reference {}",
                    n,
                    Opts(o).describe(),
                    match got {
                        Ok(p) => format!("Ok({})", crate::json::hex(&p.bytes())),
                        Err(e) => gen_err_name(e).to_string(),
                    },
                    match &exp {
                        Ok(p) => format!("Ok({})", crate::json::hex(&p.bytes())),
                        Err(e) => e.name().to_string(),
                    }
                ),
                case().with("options", o),
            );
        }
    }
    if let (Some(a), Some(b)) = (q_int, q_f32) {
        if a != b {
            rep.count("state:intq!=f32q", 1);
        }
    }
}

/// Feed a short suffix to a generator built from the injected state and to the model
/// continued from the same state (bucket counters near u32::MAX wrap in the reference).
fn state_suffix_one<V: Variant>(st: &GeneratorState, suffix: &[u8], rep: &mut Report) {
    let mut rs = ref_from_state(st, if V::NB == 48 { 48 } else { 256 });
    if rs.n + suffix.len() as u64 > oracle::MAX_DATA_LENGTH {
        return;
    }
    rs.update(suffix);
    let r = guard(|| {
        let mut g = V::gen_from_state(st);
        g.update(suffix);
        let mut outs = Vec::new();
        for o in [30u8, 28, 2, 0] {
            outs.push((o, g.finalize_with_options(&options(Opts(o))).map(|h| V::parts(&h))));
        }
        outs
    });
    let case = || {
        Json::obj()
            .with("variant", V::NAME)
            .with("state", state_json(st))
            .with("suffix", Json::hex(suffix))
    };
    match r {
        Err(p) => rep.violation(
            &format!("state+suffix|{}|panic", V::NAME),
            &format!("panic: {} at {}", p.message, p.location),
            case(),
        ),
        Ok(outs) => {
            for (o, got) in outs {
                rep.eval(1);
                if let Some(exp) = rs.finalize(V::NB, V::CK, Opts(o)) {
                    if let Some(class) = compare_outcome(&got, &exp) {
                        rep.violation(
                            &format!("state+suffix|{}|{}", V::NAME, class),
                            &format!(
                                "injected state continued with {} bytes, options {}: crate differs from the reference continued from the same state",
                                suffix.len(),
                                Opts(o).describe()
                            ),
                            case().with("options", o),
                        );
                    }
                }
            }
        }
    }
    // did a counter wrap?
    if st.buckets.iter().zip(rs.b.iter()).any(|(a, b)| b < a) {
        rep.count("state:bucket_wrapped_during_suffix", 1);
    }
}

pub fn state_check(st: &GeneratorState, rep: &mut Report) {
    all_variants!(state_one, st, rep);
    if st.tail_len == 4 {
        let mut rng = Rng::new(fingerprint(&st.len.to_le_bytes()) ^ st.buckets[7] as u64);
        let n = rng.range(1, 48) as usize;
        let suffix = if rng.chance(1, 2) { vec![rng.next_u8(); n] } else { rng.bytes(n) };
        all_variants!(state_suffix_one, st, &suffix, rep);
    }
}

pub fn run_state(ctx: &Ctx, rep: &mut Report) {
    rep.rule = "generator states injected through hook H2 (7 bucket families incl. counts around 2^24, 2^31 and wrapped; lengths at every code boundary and at MAX-k) x 5 variants x 32 options, finalized by the crate and by the reference model; every state is non-trivial; distinct by fingerprint of the state".into();
    let n = ctx.n(60_000, 3_000_000);
    for i in 0..n {
        let mut rng = ctx.rng("c01-state", i);
        let (st, fam) = gen::state(&mut rng);
        rep.count(&format!("state-family:{}", gen::STATE_FAMILIES[fam]), 1);
        state_check(&st, rep);
        let mut fp = Vec::with_capacity(1040);
        for x in st.buckets.iter() {
            fp.extend_from_slice(&x.to_le_bytes());
        }
        fp.extend_from_slice(&st.len.to_le_bytes());
        fp.extend_from_slice(&st.checksum);
        rep.distinct(fingerprint(&fp));
        if rep.want_sample() && i % 7 == 3 {
            rep.sample(
                Json::obj()
                    .with("state_family", gen::STATE_FAMILIES[fam])
                    .with("len", st.len)
                    .with("first_buckets", st.buckets[..8].iter().map(|&x| Json::i(x)).collect::<Vec<_>>()),
            );
        }
    }
    if ctx.scale < 0.2 {
        return;
    }
    rep.floor("state:intq!=f32q", 10);
    rep.floor("state:q3>=2^24", 10);
    rep.floor("state:q3>=2^31", 10);
    rep.floor("state:q1*100_wraps_u32", 10);
    rep.floor("state:ties_at_quartile", 10);
    rep.floor("state:Ok", 100);
    rep.floor("state:BucketsAreHalfEmpty", 1);
    rep.floor("state:BucketsAreThreeQuarterEmpty", 1);
    rep.floor("state:TooLargeInput", 1);
    rep.floor("state:bucket_wrapped_during_suffix", 5);
}

// ---------------------------------------------------------------------------
// Bucket mapping level (hook H3)

pub fn run_map(ctx: &Ctx, rep: &mut Report) {
    let exhaustive = ctx.thorough() && ctx.scale >= 1.0;
    rep.rule = if exhaustive {
        "all 2^32 argument tuples of both bucket-mapping functions against the Pearson model (exhaustive)".into()
    } else {
        "both bucket-mapping functions against the Pearson model: every (b1,b2,b3) for the 7 first-byte values the generator uses (0,2,3,5,7,11,13), plus a seeded sample of 2^16 triples for each other first byte (the 3-byte checksum chains through arbitrary first bytes); distinct = argument tuples".to_string()
    };
    rep.exhaustive = Some(exhaustive);
    let mut bad = 0u64;
    let mut evals = 0u64;
    let mut check = |rep: &mut Report, b0: u8, b1: u8, b2: u8, b3: u8| {
        let g256 = tlsh::verif::b_mapping_256(b0, b1, b2, b3);
        let g48 = tlsh::verif::b_mapping_48(b0, b1, b2, b3);
        let e256 = oracle::bmap(256, b0, b1, b2, b3);
        let e48 = oracle::bmap(48, b0, b1, b2, b3);
        if g256 != e256 || g48 != e48 {
            bad += 1;
            if bad <= 4 {
                rep.violation(
                    if g256 != e256 { "map|256" } else { "map|48" },
                    &format!(
                        "b_mapping({},{},{},{}): crate 256->{} 48->{}, model 256->{} 48->{}",
                        b0, b1, b2, b3, g256, g48, e256, e48
                    ),
                    Json::obj().with(
                        "args",
                        vec![Json::i(b0), Json::i(b1), Json::i(b2), Json::i(b3)],
                    ),
                );
            }
        }
    };
    let scale_small = ctx.scale < 1.0;
    if exhaustive {
        let (lo, hi) = ctx.slice(256 * 256);
        for top in lo..hi {
            let (b0, b1) = ((top >> 8) as u8, top as u8);
            for b2 in 0..=255u8 {
                for b3 in 0..=255u8 {
                    check(rep, b0, b1, b2, b3);
                }
            }
            evals += 65536;
        }
    } else {
        let salts = [0u8, 2, 3, 5, 7, 11, 13];
        let (lo, hi) = if scale_small {
            let per = ((256.0 * ctx.scale).ceil() as u64).clamp(1, 256);
            let lo = (ctx.shard * per) % 256;
            (lo, (lo + per).min(256))
        } else {
            ctx.slice(256)
        };
        for &b0 in salts.iter() {
            for b1 in lo..hi {
                for b2 in 0..=255u8 {
                    for b3 in 0..=255u8 {
                        check(rep, b0, b1 as u8, b2, b3);
                    }
                }
                evals += 65536;
            }
        }
        let mut rng = ctx.rng("c01-map", 0);
        let per_b0 = if scale_small { 64 } else { 65536 / ctx.nshards.max(1) + 1 };
        for b0 in 0..=255u8 {
            for _ in 0..per_b0 {
                let x = rng.next_u32();
                check(rep, b0, x as u8, (x >> 8) as u8, (x >> 16) as u8);
                evals += 1;
            }
        }
    }
    rep.eval(evals * 2);
    rep.count("map:tuples", evals);
    // tuples are distinct by construction in the enumerated part
    rep.count("distinct_by_construction", evals);
    rep.sample(Json::obj().with("args", vec![Json::i(2), Json::i(0x41), Json::i(0x42), Json::i(0x43)]).with(
        "b_mapping_256",
        tlsh::verif::b_mapping_256(2, 0x41, 0x42, 0x43),
    ).with("b_mapping_48", tlsh::verif::b_mapping_48(2, 0x41, 0x42, 0x43)));
}

// ---------------------------------------------------------------------------
// Aggregation level (hook H5)

pub fn agg_case(rng: &mut Rng) -> ([u32; 256], u32, u32, u32) {
    let (st, _) = gen::state(rng);
    let b = st.buckets;
    // ordered thresholds: true quartiles of some prefix, or arbitrary ordered values
    let (q1, q2, q3) = match rng.below(4) {
        0 => {
            let mut q = [rng.next_u32(), rng.next_u32(), rng.next_u32()];
            q.sort_unstable();
            (q[0], q[1], q[2])
        }
        1 => {
            // thresholds equal to actual bucket values (ties matter for strict '>')
            let mut q = [
                b[rng.below(256) as usize],
                b[rng.below(256) as usize],
                b[rng.below(256) as usize],
            ];
            q.sort_unstable();
            (q[0], q[1], q[2])
        }
        2 => {
            let v = b[rng.below(256) as usize];
            (v, v, v)
        }
        _ => {
            let nb = *rng.pick(&[48usize, 128, 256]);
            let mut s = b[..nb].to_vec();
            s.sort_unstable();
            (s[nb / 4 - 1], s[nb / 2 - 1], s[nb - nb / 4 - 1])
        }
    };
    (b, q1, q2, q3)
}

pub fn agg_check(b: &[u32; 256], q1: u32, q2: u32, q3: u32, rep: &mut Report) {
    let e48 = oracle::aggregate(&b[..48], q1, q2, q3);
    let e128 = oracle::aggregate(&b[..128], q1, q2, q3);
    let e256 = oracle::aggregate(&b[..], q1, q2, q3);
    let b48: [u32; 48] = b[..48].try_into().unwrap();
    let b128: [u32; 128] = b[..128].try_into().unwrap();
    let mut results: Vec<(&'static str, Result<(Vec<u8>, Vec<u8>, Vec<u8>), crate::report::Panicked>)> =
        Vec::new();
    tlsh::verif::bucket_aggregation::for_each_backend(&mut |name, f48, f128, f256| {
        let r = guard(|| {
            // canaries around the output
            let mut o48 = [0xa5u8; 12];
            let mut o128 = [0x5au8; 32];
            let mut o256 = [0xc3u8; 64];
            f48(&mut o48, &b48, q1, q2, q3);
            f128(&mut o128, &b128, q1, q2, q3);
            f256(&mut o256, b, q1, q2, q3);
            (o48.to_vec(), o128.to_vec(), o256.to_vec())
        });
        results.push((name, r));
    });
    for (name, r) in results {
        rep.seen("agg-backends", name);
        rep.count(&format!("agg:{}", name), 3);
        rep.eval(3);
        let case = || {
            let mut raw = Vec::with_capacity(1024);
            for x in b.iter() {
                raw.extend_from_slice(&x.to_le_bytes());
            }
            Json::obj()
                .with("backend", name)
                .with("buckets_le32", Json::hex(&raw))
                .with("q", vec![Json::i(q1), Json::i(q2), Json::i(q3)])
        };
        match r {
            Err(p) => rep.violation(
                &format!("agg|{}|panic", name),
                &format!("panic in aggregation back end: {} at {}", p.message, p.location),
                case(),
            ),
            Ok((o48, o128, o256)) => {
                for (sz, got, exp) in [(48, &o48, &e48), (128, &o128, &e128), (256, &o256, &e256)] {
                    if got != exp {
                        rep.violation(
                            &format!("agg|{}|{}", name, sz),
                            &format!(
                                "aggregate_{} via {}: {} vs model {}",
                                sz,
                                name,
                                crate::json::hex(got),
                                crate::json::hex(exp)
                            ),
                            case(),
                        );
                    }
                }
            }
        }
    }
}

pub fn run_agg(ctx: &Ctx, rep: &mut Report) {
    rep.rule = "bucket arrays (state families incl. values straddling 2^31 and ties) with ordered thresholds (random, equal to bucket values, all equal, true quartiles) through every compiled aggregation back end x 3 sizes against the model; distinct by fingerprint of (buckets, thresholds)".into();
    let n = ctx.n(300_000, 8_000_000);
    for i in 0..n {
        let mut rng = ctx.rng("c01-agg", i);
        let (b, q1, q2, q3) = agg_case(&mut rng);
        agg_check(&b, q1, q2, q3, rep);
        let mut fp = Vec::with_capacity(1040);
        for x in b.iter() {
            fp.extend_from_slice(&x.to_le_bytes());
        }
        fp.extend_from_slice(&q1.to_le_bytes());
        fp.extend_from_slice(&q2.to_le_bytes());
        fp.extend_from_slice(&q3.to_le_bytes());
        rep.distinct(fingerprint(&fp));
        if (q1 ^ 0x8000_0000) > (q3 ^ 0x8000_0000) || b.iter().any(|&x| x >= 1 << 31) && q3 < 1 << 31 {
            rep.count("agg:straddles_2^31", 1);
        }
        if rep.want_sample() && i % 5 == 1 {
            rep.sample(
                Json::obj()
                    .with("q", vec![Json::i(q1), Json::i(q2), Json::i(q3)])
                    .with("first_buckets", b[..8].iter().map(|&x| Json::i(x)).collect::<Vec<_>>())
                    .with("model_body_48", Json::hex(&oracle::aggregate(&b[..48], q1, q2, q3))),
            );
        }
    }
    if ctx.scale >= 0.2 {
        rep.floor("agg:straddles_2^31", 10);
    }
    rep.set_floor_always("agg-backends", ctx.param_u64("expect_agg_backends", 2));
}

pub fn replay(case: &Json, rep: &mut Report) -> bool {
    if let Some(data) = case.get_hex("data") {
        api_check(&data, rep);
        return true;
    }
    if let Some(st) = case.get("state").and_then(state_from_json) {
        state_check(&st, rep);
        if let Some(sfx) = case.get_hex("suffix") {
            all_variants!(state_suffix_one, &st, &sfx, rep);
        }
        return true;
    }
    if let (Some(raw), Some(q)) = (case.get_hex("buckets_le32"), case.get("q").and_then(|q| q.as_arr())) {
        if raw.len() == 1024 && q.len() == 3 {
            let mut b = [0u32; 256];
            for (i, c) in raw.chunks(4).enumerate() {
                b[i] = u32::from_le_bytes(c.try_into().unwrap());
            }
            agg_check(
                &b,
                q[0].as_u64().unwrap_or(0) as u32,
                q[1].as_u64().unwrap_or(0) as u32,
                q[2].as_u64().unwrap_or(0) as u32,
                rep,
            );
            return true;
        }
    }
    if let Some(a) = case.get("args").and_then(|a| a.as_arr()) {
        if a.len() == 4 {
            let v: Vec<u8> = a.iter().map(|x| x.as_u64().unwrap_or(0) as u8).collect();
            let (b0, b1, b2, b3) = (v[0], v[1], v[2], v[3]);
            rep.eval(2);
            if tlsh::verif::b_mapping_256(b0, b1, b2, b3) != oracle::bmap(256, b0, b1, b2, b3) {
                rep.violation("map|256", "b_mapping_256 differs from the model", case.clone());
            }
            if tlsh::verif::b_mapping_48(b0, b1, b2, b3) != oracle::bmap(48, b0, b1, b2, b3) {
                rep.violation("map|48", "b_mapping_48 differs from the model", case.clone());
            }
            return true;
        }
    }
    false
}
