//! Seeded workload generators shared by the monitors.

use crate::oracle::TOP;
use crate::rng::Rng;
use tlsh::verif::GeneratorState;

pub const THRESHOLDS: [usize; 17] = [
    0, 1, 3, 4, 5, 9, 10, 11, 49, 50, 51, 127, 128, 129, 255, 256, 257,
];

static SMALL: std::sync::atomic::AtomicBool = std::sync::atomic::AtomicBool::new(false);

/// Cap input sizes (used when the process runs under an interpreter such as Miri).
pub fn set_small(on: bool) {
    SMALL.store(on, std::sync::atomic::Ordering::Relaxed);
}
pub fn small() -> bool {
    SMALL.load(std::sync::atomic::Ordering::Relaxed)
}

/// Input length mixture biased to the boundaries the code branches on.
pub fn byte_length(rng: &mut Rng, allow_big: bool) -> usize {
    if small() {
        return match rng.below(10) {
            0..=2 => rng.below(65) as usize,
            3..=5 => {
                let t = *rng.pick(&THRESHOLDS);
                (t as i64 + rng.range(0, 4) as i64 - 2).max(0) as usize
            }
            _ => rng.range(60, 500) as usize,
        };
    }
    match rng.below(100) {
        0..=19 => rng.below(65) as usize,
        20..=34 => {
            let t = *rng.pick(&THRESHOLDS);
            (t as i64 + rng.range(0, 4) as i64 - 2).max(0) as usize
        }
        35..=44 => {
            // edges of the length-code table
            let i = rng.below(48) as usize;
            (TOP[i] as i64 + rng.range(0, 2) as i64 - 1).max(0) as usize
        }
        45..=84 => {
            // log-uniform 65..5000
            let lo = 65f64.ln();
            let hi = 5000f64.ln();
            let u = rng.below(1 << 24) as f64 / (1u64 << 24) as f64;
            (lo + (hi - lo) * u).exp() as usize
        }
        85..=96 => rng.range(5000, 70000) as usize,
        _ => {
            if allow_big {
                rng.range(65536, 2 * 1024 * 1024) as usize
            } else {
                rng.range(300, 5000) as usize
            }
        }
    }
}

pub const FAMILIES: [&str; 7] = [
    "uniform", "alphabet", "periodic", "text", "runs", "sparse-walk", "mutation",
];

/// Content of `len` bytes; returns the family index.
pub fn content(rng: &mut Rng, len: usize, prev: Option<&[u8]>) -> (Vec<u8>, usize) {
    let fam = match rng.below(100) {
        0..=29 => 0,
        30..=44 => 1,
        45..=62 => 2,
        63..=70 => 3,
        71..=78 => 4,
        79..=89 => 5,
        _ => 6,
    };
    let mut v = vec![0u8; len];
    match fam {
        0 => rng.fill(&mut v),
        1 => {
            let k = rng.range(1, 8) as usize;
            let alpha = rng.bytes(k);
            for x in v.iter_mut() {
                *x = alpha[rng.below(k as u64) as usize];
            }
        }
        2 => {
            let p = rng.range(1, 64) as usize;
            let pat = rng.bytes(p);
            for (i, x) in v.iter_mut().enumerate() {
                *x = pat[i % p];
            }
        }
        3 => {
            const A: &[u8] = b"etaoin shrdlucmfwypvbgkjqxz ETAOIN.,\n0123456789";
            for x in v.iter_mut() {
                *x = A[rng.below(A.len() as u64) as usize];
            }
        }
        4 => {
            let k = rng.range(2, 4) as usize;
            let alpha = rng.bytes(k);
            let mut i = 0;
            while i < len {
                let run = rng.range(1, 40) as usize;
                let c = alpha[rng.below(k as u64) as usize];
                for x in v[i..len.min(i + run)].iter_mut() {
                    *x = c;
                }
                i += run;
            }
        }
        5 => {
            // a periodic base with rare random deviations: moderately filled buckets
            let p = rng.range(3, 48) as usize;
            let pat = rng.bytes(p);
            let dev = rng.range(0, 40);
            for (i, x) in v.iter_mut().enumerate() {
                *x = if dev > 0 && rng.below(1000) < dev {
                    rng.next_u8()
                } else {
                    pat[i % p]
                };
            }
        }
        _ => {
            if let Some(prev) = prev {
                let n = len.min(prev.len());
                v[..n].copy_from_slice(&prev[..n]);
                if len > n {
                    let (_, tail) = v.split_at_mut(n);
                    rng.fill(tail);
                }
                if len > 0 {
                    if rng.chance(1, 2) {
                        let i = rng.below(len as u64) as usize;
                        v[i] ^= 1 << rng.below(8);
                    } else {
                        let i = rng.below(len as u64) as usize;
                        let j = len.min(i + rng.range(1, 32) as usize);
                        let (_, rest) = v.split_at_mut(i);
                        rng.fill(&mut rest[..j - i]);
                    }
                }
            } else {
                rng.fill(&mut v);
            }
        }
    }
    (v, fam)
}

/// A fresh input (length mixture x content families).
pub fn input(rng: &mut Rng, allow_big: bool, prev: Option<&[u8]>) -> (Vec<u8>, usize) {
    let len = byte_length(rng, allow_big);
    content(rng, len, prev)
}

/// Split `total` into piece sizes dominated by 0..=5 with occasional large pieces.
pub fn pieces(rng: &mut Rng, total: usize) -> Vec<usize> {
    let mut out = Vec::new();
    let mut left = total;
    let style = rng.below(4);
    while left > 0 && out.len() < 400 {
        let p = match (style, rng.below(100)) {
            (0, _) => rng.below(6) as usize,
            (1, 0..=69) => rng.below(6) as usize,
            (1, _) => rng.range(6, 300) as usize,
            (2, 0..=39) => rng.below(6) as usize,
            (2, 40..=89) => rng.range(6, 64) as usize,
            (2, _) => rng.range(64, 70000) as usize,
            (_, 0..=19) => rng.below(9) as usize,
            (_, _) => rng.range(1, (left as u64).max(1)) as usize,
        };
        let p = p.min(left);
        out.push(p);
        left -= p;
    }
    if left > 0 {
        out.push(left);
    }
    // sprinkle empty pieces
    if rng.chance(1, 3) {
        let k = rng.below(3) + 1;
        for _ in 0..k {
            let i = rng.below(out.len() as u64 + 1) as usize;
            out.insert(i, 0);
        }
    }
    out
}

pub const STATE_FAMILIES: [&str; 7] = [
    "uniform-u32", "around-2^24", "around-2^31", "near-wrap", "ties", "zero-heavy", "small-counts",
];

/// A generator state (bucket families x length boundaries).
pub fn state(rng: &mut Rng) -> (GeneratorState, usize) {
    let fam = rng.below(7) as usize;
    let mut b = [0u32; 256];
    match fam {
        0 => {
            for x in b.iter_mut() {
                *x = rng.next_u32();
            }
        }
        1 | 2 | 3 => {
            let center: u64 = match fam {
                1 => 1 << 24,
                2 => 1 << 31,
                _ => (1u64 << 32) - 1,
            };
            let spread = *rng.pick(&[4u64, 300, 70000, 1 << 22]);
            for x in b.iter_mut() {
                let d = rng.below(2 * spread + 1) as i64 - spread as i64;
                *x = (center as i64 + d).rem_euclid(1i64 << 32) as u32;
            }
            // a few wrapped / zero / huge outliers
            for _ in 0..rng.below(6) {
                b[rng.below(256) as usize] = *rng.pick(&[0u32, 1, u32::MAX, 1 << 31, (1 << 31) - 1]);
            }
        }
        4 => {
            let base = match rng.below(4) {
                0 => rng.below(4) as u32,
                1 => rng.next_u32() >> rng.below(32),
                2 => (1 << 31) - 1,
                _ => 42949672 + rng.below(3) as u32,
            };
            let k = rng.range(1, 3) as u32;
            for x in b.iter_mut() {
                *x = base.wrapping_add(rng.below(k as u64 + 1) as u32);
            }
        }
        5 => {
            let pz = rng.range(20, 85);
            let hi = *rng.pick(&[3u64, 50, 1 << 20, 1 << 32]);
            for x in b.iter_mut() {
                *x = if rng.below(100) < pz { 0 } else { rng.below(hi) as u32 };
            }
        }
        _ => {
            let hi = rng.range(2, 40);
            for x in b.iter_mut() {
                *x = rng.below(hi) as u32;
            }
        }
    }
    let len: u32 = match rng.below(10) {
        0..=2 => {
            let i = rng.below(170) as usize;
            (TOP[i] as i64 + rng.range(0, 2) as i64 - 1 - 4).max(0) as u32
        }
        3 => (crate::oracle::MAX_DATA_LENGTH - 4 - rng.below(8)) as u32,
        4 => rng.below(600) as u32,
        _ => rng.next_u32() >> rng.below(32),
    };
    let mut cs = [0u8; 3];
    rng.fill(&mut cs);
    let mut tail = [0u8; 4];
    rng.fill(&mut tail);
    (
        GeneratorState {
            buckets: b,
            len,
            checksum: cs,
            tail,
            tail_len: 4,
        },
        fam,
    )
}

/// A random binary form of a hash of `size` bytes; if `strict_valid`, the
/// checksum (48 buckets) and length code are forced into their valid ranges.
pub fn hash_bytes(rng: &mut Rng, size: usize, ck: usize, nb: usize, strict_valid: bool) -> Vec<u8> {
    let mut v = rng.bytes(size);
    match rng.below(8) {
        0 => {
            // extreme bodies
            let fill = *rng.pick(&[0x00u8, 0xff, 0x55, 0xaa]);
            for x in v[ck + 2..].iter_mut() {
                *x = fill;
            }
        }
        1 => {
            for x in v[ck + 2..].iter_mut() {
                *x = *rng.pick(&[0x00u8, 0xff, 0x0f, 0xf0, 0x3c, 0xc3]);
            }
        }
        _ => {}
    }
    if strict_valid {
        if nb == 48 {
            v[0] = rng.below(49) as u8;
        }
        v[ck] = rng.below(170) as u8;
    }
    v
}

/// A structured neighbour of `a`: one part or one dibit differing, antipodal header, ...
pub fn neighbour(rng: &mut Rng, a: &[u8], ck: usize, nb: usize, strict_valid: bool) -> Vec<u8> {
    let mut b = a.to_vec();
    match rng.below(8) {
        0 => {}
        1 => {
            let i = ck + 2 + rng.below((a.len() - ck - 2) as u64) as usize;
            let s = 2 * rng.below(4);
            b[i] ^= (1 + rng.below(3) as u8) << s;
        }
        2 => {
            b[ck] = a[ck].wrapping_add(*rng.pick(&[1u8, 2, 127, 128, 129, 255]));
        }
        3 => {
            let q1 = (a[ck + 1] & 15).wrapping_add(*rng.pick(&[1u8, 7, 8, 9, 15])) & 15;
            let q2 = (a[ck + 1] >> 4).wrapping_add(*rng.pick(&[0u8, 1, 8, 15])) & 15;
            b[ck + 1] = q1 | (q2 << 4);
        }
        4 => {
            let i = rng.below(ck as u64) as usize;
            b[i] = b[i].wrapping_add(1 + rng.below(255) as u8);
        }
        5 => {
            for x in b[ck + 2..].iter_mut() {
                *x = !*x;
            }
        }
        6 => {
            let i = ck + 2 + rng.below((a.len() - ck - 2) as u64) as usize;
            b[i] = rng.next_u8();
        }
        _ => {
            // antipodal everything
            for x in b[ck + 2..].iter_mut() {
                // swap 0<->3, keep 1,2 -> 2,1
                *x = !*x;
            }
            for x in b[..ck].iter_mut() {
                *x = x.wrapping_add(1);
            }
            b[ck] = a[ck].wrapping_add(128);
            b[ck + 1] = ((a[ck + 1] & 15).wrapping_add(8) & 15) | ((a[ck + 1] >> 4).wrapping_add(8) & 15) << 4;
        }
    }
    if strict_valid {
        if nb == 48 && b[0] > 48 {
            b[0] %= 49;
        }
        if b[ck] >= 170 {
            b[ck] %= 170;
        }
    }
    b
}
