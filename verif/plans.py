"""Which monitors run in which configuration / tool for each property and tier."""

import os
import sys

import configs


class Step:
    def __init__(self, monitor, config="default", profile="rel", tool="native", shards=16, scale=1.0,
                 params=None, timeout=None, crash_is_violation=False, miri_flags="", env=None):
        self.monitor = monitor
        self.config = config
        self.profile = profile
        self.tool = tool
        self.shards = shards
        self.scale = scale
        self.params = dict(params or {})
        self.timeout = timeout or (3600 if tool in ("native",) else 7200)
        self.crash_is_violation = crash_is_violation or tool in ("asan", "tsan", "valgrind") or tool.startswith("miri")
        self.miri_flags = miri_flags
        self.env = dict(env or {})

    def describe(self):
        return "%s[%s/%s/%s]" % (self.monitor, self.config, self.profile, self.tool)


# Number of aggregation / distance back ends each configuration must expose.
AGG_BACKENDS = {
    "default": 5, "dyn-nohex": 5, "unsafe": 5,
    "static-sse2": 3, "static-sse41": 3, "static-avx2": 3, "unsafe-static-avx2": 3, "unsafe-static-sse41": 3,
}
DIST_BACKENDS = {
    "default": 6, "dyn-nohex": 6, "unsafe": 6,
    "static-sse2": 4, "static-sse41": 4, "static-avx2": 4, "unsafe-static-avx2": 4, "unsafe-static-sse41": 4,
}

ASSUMPTIONS = {
    "C01": [
        "byte strings, generator states and threshold triples are sampled (boundary-biased), not enumerated; the bucket mappings are enumerated (completely in the thorough tier)",
        "the reference model (harness/src/oracle.rs) is taken to be the TLSH reference algorithm; it is validated against the official known-answer vectors shipped in the repository and against an independent Python model (oracle-py/ref.py)",
        "the integer Q-ratio reference is computed in 64-bit; inputs on which the reference's float->unsigned conversion is undefined are skipped and counted",
        "NEON / wasm-simd128 / core::simd back ends cannot be executed in this sandbox",
    ],
}

COMMON_ASSUMPTIONS = [
    "runtime monitoring judges only the executions it produced: inputs, histories, scripts and schedules are seeded samples biased to the boundaries the code branches on, except where the evidence says a finite domain was enumerated",
    "the crate is built from /repo's working tree with the verification hooks on (--cfg fast_tlsh_verif); with the guard off the tree is the original plus unexpanded cfg attributes",
    "NEON, wasm-simd128 and core::simd back ends and the `unstable` feature cannot be built or executed in this sandbox; CPUs older than this one are represented by static target-feature builds and by Miri's compile-time feature detection",
    "a clean sanitizer / Miri run is not a proof of memory safety: only executed paths are judged",
]

EXHAUSTIVE_WHOLE = {"C09": True}


def build_failure_is_violation(prop):
    return prop in ("C07", "C18")


def plan(prop, tier):
    q = tier == "quick"
    S = Step
    steps = []

    def many(monitor, cfgs, shards=8, scale=1.0, profile="rel", params=None, main=("default", "naive"), minor_scale=0.25, minor_shards=4):
        for c in cfgs:
            big = c in main
            p = dict(params or {})
            if monitor in ("c01-agg",):
                p["expect_agg_backends"] = AGG_BACKENDS.get(c, 2)
            if monitor in ("c02-body",):
                p["expect_dist_backends"] = DIST_BACKENDS.get(c, 3)
            steps.append(S(monitor, c, profile=profile, shards=shards if big else minor_shards,
                           scale=scale if big else scale * minor_scale, params=p))

    def miri(monitor, config, qscale, tscale, shards=16, tool="miri", params=None, flags=""):
        # reduced runs are sized relative to the quick workload in both tiers (Ctx::n); the thorough
        # tier runs 8x the quick scale (capped below the 0.2 "reduced mode" threshold) on 16 shards
        if monitor == "c09-length":
            sc = qscale
        else:
            sc = qscale if q else min(0.19, qscale * 4)
        steps.append(S(monitor, config, profile="dev", tool=tool, shards=shards if q else max(shards, 16), scale=sc,
                       params=params, timeout=4 * 3600, miri_flags=flags))

    def asan(monitor, config, qscale, tscale, shards=8, params=None):
        steps.append(S(monitor, config, tool="asan", shards=shards, scale=qscale if q else tscale, params=params, timeout=2 * 3600))

    if prop == "C01":
        miri("c01-api", "default-avx2", 0.0005, 0.02, shards=8)
        miri("c01-api", "naive", 0.0005, 0.02, shards=8)
        miri("c01-state", "default-avx2", 0.00015, 0.005, shards=4)
        if not q:
            miri("c01-api", "lowmem-a", 0.003, 0.02)
            miri("c01-api", "default", 0.003, 0.02, tool="miri-i686")
            miri("c01-api", "naive", 0.003, 0.02, tool="miri-s390x")
            asan("c01-api", "default", 0.25, 0.5)
        cfgs = ["default", "naive", "lowmem-a", "static-sse41"] if q else \
            ["default", "naive", "optdef", "embedded", "lowmem-a", "lowmem-b", "lowmem-c", "dyn-nohex",
             "static-sse2", "static-sse41", "static-avx2", "unsafe", "unsafe-naive"]
        many("c01-api", cfgs, shards=16)
        many("c01-state", cfgs, shards=8)
        many("c01-agg", cfgs, shards=4, minor_scale=1.0)
        steps.append(S("c01-map", "default", shards=16))
        steps.append(S("c01-map", "naive", shards=16))
        many("c01-api", ["default", "naive"], profile="dbg", shards=8, scale=0.25)
        many("c01-state", ["default", "naive"], profile="dbg", shards=4, scale=0.25)
    elif prop == "C02":
        cfgs = ["default", "naive", "embedded", "lowmem-b"] if q else \
            ["default", "naive", "optdef", "embedded", "lowmem-a", "lowmem-b", "static-sse2", "static-sse41", "static-avx2", "unsafe", "strict"]
        many("c02-parts", cfgs, shards=4, minor_shards=4, minor_scale=1.0)
        many("c02-whole", cfgs, shards=8, scale=2.0)
        bcfgs = ["default", "static-sse41"] if q else ["default", "dyn-nohex", "naive", "static-sse2", "static-sse41", "static-avx2", "unsafe", "unsafe-static-avx2"]
        many("c02-body", bcfgs, shards=16, main=bcfgs)
        many("c02-whole", ["default"], profile="dbg", shards=4, scale=0.25)
        P2 = {"expect_dist_backends": 6}
        miri("c02-body", "default-avx2", 0.0005, 0.005, params=P2)
        miri("c02-whole", "default-avx2", 0.0002, 0.002, shards=8)
        asan("c02-body", "default", 1.0, 1.0, params=P2)
        if not q:
            miri("c02-body", "static-sse41", 0.0005, 0.005, params={"expect_dist_backends": 4})
            miri("c02-whole", "naive", 0.0005, 0.005, shards=8, tool="miri-i686")
            miri("c02-whole", "naive", 0.0005, 0.005, shards=8, tool="miri-s390x")
    elif prop == "C03":
        cfgs = ["default", "naive", "lowmem-a"] if q else ["default", "naive", "lowmem-a", "lowmem-b", "optdef", "static-avx2", "unsafe"]
        many("c03-history", cfgs, shards=16, scale=2.0 if q else 1.0, main=cfgs if q else ("default", "naive", "lowmem-a"), minor_shards=16)
        many("c03-history", ["default", "naive", "lowmem-a"], profile="dbg", shards=8, scale=0.5 if q else 0.2, main=("default", "naive", "lowmem-a"))
        miri("c03-history", "default-avx2", 0.0008, 0.04)
        # one piece longer than u32::MAX must behave like the same bytes in smaller pieces
        steps.append(S("c11-huge-slice", "default", shards=1 if q else 2, params={"property": "C03"}, timeout=2 * 3600))
        if not q:
            miri("c03-history", "lowmem-a", 0.002, 0.05)
            miri("c03-history", "naive", 0.002, 0.05, tool="miri-i686")
    elif prop == "C04":
        cfgs = ["default", "naive", "embedded", "lowmem-a", "lowmem-b", "lowmem-c", "hexsimd-parse", "hexsimd-conv", "unsafe", "strict"]
        if not q:
            cfgs += ["optdef", "static-avx2", "unsafe-naive", "unsafe-lowmem-b"]
        many("c04-text", cfgs, shards=8, scale=2.0, main=cfgs)
        many("c04-text", ["default", "naive"], profile="dbg", shards=4, scale=0.5)
        miri("c04-text", "default-avx2", 0.0008, 0.03, shards=8)
        miri("c04-text", "unsafe-avx2", 0.0008, 0.03, shards=8)
        if not q:
            miri("c04-text", "default", 0.0008, 0.03, shards=8)
            miri("c04-text", "unsafe-lowmem-b", 0.003, 0.03, shards=8)
            miri("c04-text", "naive", 0.003, 0.03, shards=8, tool="miri-s390x")
    elif prop == "C05":
        cfgs = ["default", "naive", "lowmem-a", "lowmem-b", "lowmem-c", "hexsimd-parse"]
        if not q:
            cfgs += ["embedded", "hexsimd-conv", "unsafe", "unsafe-lowmem-b", "static-avx2"]
        many("c05-parse", cfgs, shards=8, scale=2.0, main=cfgs)
        many("c05-parse", ["default", "naive", "lowmem-a", "lowmem-b", "lowmem-c"], profile="dbg", shards=4, scale=0.5, main=("default",))
        miri("c05-parse", "default-avx2", 0.002, 0.03, shards=8)
        asan("c05-parse", "default", 0.9, 0.9)
        if not q:
            miri("c05-parse", "default", 0.002, 0.03, shards=8)
            miri("c05-parse", "lowmem-b", 0.005, 0.05)
            miri("c05-parse", "lowmem-c", 0.005, 0.05)
            asan("c05-parse", "hexsimd-parse", 0.9, 0.9)
    elif prop == "C06":
        cfgs = ["default", "naive", "strict", "lowmem-a", "lowmem-b", "embedded"] if q else \
            ["default", "naive", "strict", "lowmem-a", "lowmem-b", "lowmem-c", "unsafe", "embedded", "hexsimd-conv", "hexsimd-parse", "optdef"]
        many("c06-binary", cfgs, shards=8, scale=2.0, main=("default", "naive", "strict"))
        many("c06-binary", ["default", "strict"], profile="dbg", shards=4, scale=0.5)
        miri("c06-binary", "default-avx2", 0.003, 0.03, shards=8)
        if not q:
            miri("c06-binary", "unsafe", 0.003, 0.03, shards=8)
    elif prop == "C08":
        cfgs = ["default", "naive", "embedded", "static-sse2", "static-sse41"] if q else \
            ["default", "naive", "embedded", "optdef", "lowmem-a", "lowmem-b", "static-sse2", "static-sse41", "static-avx2", "unsafe", "strict"]
        many("c08-laws", cfgs, shards=16, scale=20.0 if q else 3.0, main=("default", "naive", "embedded"), minor_scale=0.1, minor_shards=8)
        many("c08-laws", ["default"], profile="dbg", shards=4, scale=0.25)
        # 32-bit and big-endian targets (pseudo-SIMD paths read the body in native-endian words)
        miri("c08-laws", "naive", 0.0001, 0.001, shards=4, tool="miri-s390x")
        miri("c08-laws", "naive", 0.0001, 0.001, shards=4, tool="miri-i686")
    elif prop == "C09":
        steps.append(S("c09-length", "default", shards=16))
        steps.append(S("c09-length", "default", profile="dbg", shards=1, scale=0.5))
        miri("c09-length", "default", 0.5, 0.5, shards=1, tool="miri-i686")
        # "a generated hash always carries the code of the number of bytes fed": also for one
        # single update() call with a slice longer than u32::MAX (shared with C11)
        steps.append(S("c11-huge-slice", "default", shards=1 if q else 2, params={"property": "C09"}, timeout=2 * 3600))
        miri("c09-length", "unsafe", 0.5, 0.5, shards=1)
        # the portable (non-clz) search is only compiled for other architectures: run the boundary
        # set on a big-endian non-x86 target under Miri
        miri("c09-length", "naive", 0.5, 0.5, shards=1, tool="miri-s390x")
        # hashes produced by the stream helper carry the code of the bytes delivered
        steps.append(S("c12-stream", "default", shards=8, scale=0.5, params={"property": "C09"}))
        if not q:
            steps.append(S("c09-length", "naive", shards=16))
            steps.append(S("c09-length", "unsafe", shards=16))
            steps.append(S("c09-length", "strict", shards=16))
    elif prop == "C10":
        cfgs = ["default", "naive", "lowmem-a"] if q else ["default", "naive", "lowmem-a", "lowmem-b", "optdef", "static-avx2", "unsafe"]
        many("c10-lattice", cfgs, shards=16, scale=10.0 if q else 3.0, main=cfgs)
        many("c10-lattice", ["default", "naive"], profile="dbg", shards=4, scale=0.5)
    elif prop == "C11":
        cfgs = ["default", "naive", "lowmem-a"] if q else ["default", "naive", "lowmem-a", "lowmem-b", "unsafe", "static-avx2"]
        many("c11-oversize", cfgs, shards=16, main=cfgs)
        many("c11-oversize", ["default", "naive", "lowmem-a"], profile="dbg", shards=8, scale=0.25, main=("default", "naive", "lowmem-a"))
        miri("c11-oversize", "default-avx2", 0.001, 0.04, shards=8)
        if not q:
            miri("c11-oversize", "unsafe", 0.004, 0.04)
            miri("c11-oversize", "naive", 0.004, 0.04, tool="miri-i686")
        # one single update() call with a slice longer than u32::MAX
        if q:
            steps.append(S("c11-huge-slice", "default", shards=2, timeout=2 * 3600))
        if not q:
            for fam in range(3):
                steps.append(S("c11-real", "default", shards=1, params={"family": fam}, timeout=4 * 3600))
            steps.append(S("c11-real", "naive", shards=1, params={"family": 2}, timeout=4 * 3600))
            steps.append(S("c11-huge-slice", "default", shards=1, timeout=2 * 3600))
            steps.append(S("c11-huge-slice", "default", profile="dbg", shards=1, timeout=4 * 3600))
    elif prop == "C12":
        cfgs = ["default", "naive"] if q else ["default", "naive", "unsafe", "lowmem-a", "static-avx2", "strict"]
        many("c12-stream", cfgs, shards=16, scale=2.0, main=cfgs)
        many("c12-stream", ["default", "naive"], profile="dbg", shards=8, scale=0.5)
        # real pipes, a slow writer, and signals that make read(2) return EINTR
        many("c12-pipe", ["default", "naive"] if q else ["default", "naive", "unsafe", "static-avx2"], shards=8, main=("default", "naive", "unsafe", "static-avx2"))
        many("c12-pipe", ["default"], profile="dbg", shards=4, scale=0.5, main=("default",))
        miri("c12-stream", "default-avx2", 0.02, 0.2)
        if not q:
            miri("c12-stream", "unsafe", 0.01, 0.1)
    elif prop == "C13":
        cfgs = ["default", "naive", "strict"] if q else ["default", "naive", "strict", "lowmem-b", "hexsimd-parse", "unsafe", "strict-naive"]
        many("c13-compare", cfgs, shards=16, scale=20.0 if q else 5.0, main=cfgs)
        many("c13-compare", ["default", "strict"], profile="dbg", shards=4, scale=0.5)
    elif prop == "C14":
        cfgs = ["default", "naive", "embedded", "lowmem-a", "lowmem-b", "hexsimd-conv", "strict", "unsafe"]
        if not q:
            cfgs += ["optdef", "hexsimd-parse", "unsafe-lowmem-b", "static-avx2"]
        many("c14-buffers", cfgs, shards=8, scale=2.0, main=cfgs)
        many("c14-buffers", ["default", "naive"], profile="dbg", shards=4, scale=0.5)
        miri("c14-buffers", "default-avx2", 0.015, 0.3, shards=8)
        if not q:
            miri("c14-buffers", "default", 0.015, 0.3, shards=8)
        asan("c14-buffers", "default", 0.9, 0.9)
        asan("c14-buffers", "hexsimd-conv", 0.9, 0.9)
        if not q:
            miri("c14-buffers", "lowmem-b", 0.1, 0.5, shards=8)
            miri("c14-buffers", "unsafe-avx2", 0.1, 0.5, shards=8)
    elif prop == "C15":
        P = {"property": "C15"}
        scfgs = ["strict", "strict-naive"]
        many("c05-parse", scfgs, shards=8, params=P, main=scfgs)
        many("c06-binary", scfgs, shards=8, params=P, main=scfgs)
        many("c15-gates", scfgs + ["default"], shards=4, main=scfgs + ["default"])
        gcfgs = scfgs + (["default", "naive"] if q else ["default", "naive", "lowmem-a", "lowmem-b", "static-avx2", "unsafe"])
        many("c15-generated", gcfgs, shards=16, scale=4.0, main=gcfgs)
        many("c05-parse", ["strict"], profile="dbg", shards=4, scale=0.5, params=P, main=())
        many("c15-generated", ["strict"], profile="dbg", shards=4, scale=0.5, main=())
        # the serde visitors are parse entry points too: with the strict parser they must apply the same gates
        many("c16-mock", ["serde-strict", "serde-buf-strict"], shards=8, params=P, main=("serde-strict", "serde-buf-strict"))
        many("c16-formats", ["serde-strict"], shards=8, params=P, main=("serde-strict",))
    elif prop == "C16":
        cfgs = ["serde", "serde-strict", "serde-buf", "serde-buf-strict"]
        if not q:
            cfgs += ["serde-unsafe-strict"]
        many("c16-formats", cfgs, shards=8, main=cfgs)
        many("c16-mock", cfgs, shards=8, main=cfgs)
        many("c16-formats", ["serde-strict", "serde-buf"], profile="dbg", shards=4, scale=0.25, main=())
        many("c16-mock", ["serde-strict", "serde-buf"], profile="dbg", shards=4, scale=0.25, main=())
        miri("c16-mock", "serde-strict-avx2", 0.004, 0.1, shards=8)
        miri("c16-formats", "serde-strict-avx2", 0.001, 0.03, shards=8)
    elif prop == "C07":
        tcfgs = configs.TRANSCRIPT_CONFIGS_QUICK if q else configs.TRANSCRIPT_CONFIGS
        # plus random points of the feature lattice, a fresh sample for every VERIF_SEED
        rnd = configs.random_configs(os.environ.get("VERIF_SEED", "0") or "0", 2 if q else 10)
        TRANSCRIPT_GROUPS["lenient"] = list(configs.TRANSCRIPT_CONFIGS) + rnd
        for c in tcfgs + rnd + ["strict-naive", "strict"]:
            steps.append(S("c07-transcript", c, shards=4 if q else 16))
        P = {"property": "C07"}
        bcfgs = ["default", "static-sse2", "static-sse41"] if q else ["default", "dyn-nohex", "static-sse2", "static-sse41", "static-avx2", "unsafe", "unsafe-static-avx2", "unsafe-static-sse41"]
        many("c02-body", bcfgs, shards=8, params=P, main=bcfgs, scale=0.5 if q else 1.0)
        many("c01-agg", bcfgs, shards=4, params=P, main=bcfgs)
        for c in (["default"] if q else ["default", "dyn-nohex", "unsafe"]):
            steps.append(S("c07-firstcall", c, shards=400 if q else 4000, timeout=600))
        # the same program under Miri with many scheduler seeds (data races on a replaced dispatch
        # cache are reports) and under ThreadSanitizer with real threads
        steps.append(S("c07-firstcall", "default-avx2", profile="dev", tool="miri", shards=8 if q else 16, timeout=4 * 3600,
                       miri_flags="-Zmiri-many-seeds=0..%d" % (2 if q else 16), params={"fail_exit": 1, "threads": 4}))
        if not q:
            steps.append(S("c07-firstcall", "default", profile="dev", tool="miri", shards=16, timeout=4 * 3600,
                           miri_flags="-Zmiri-many-seeds=0..16", params={"fail_exit": 1, "threads": 3}))
        steps.append(S("c07-firstcall", "default", tool="tsan", shards=40 if q else 1000, timeout=1200))
        for c in (["default-sse3"] if q else ["default-sse3", "default-ssse3", "default-sse41"]):
            steps.append(S("c07-firstcall", c, profile="dev", tool="miri", shards=4 if q else 16, timeout=4 * 3600,
                           miri_flags="-Zmiri-many-seeds=0..%d" % (1 if q else 16), params={"fail_exit": 1, "threads": 2}))
    elif prop == "C18":
        cfgs = ["alloc-default", "alloc-naive", "alloc-static-avx2", "alloc-lowmem-a", "alloc-strict", "alloc-unsafe", "alloc-embedded"]
        for c in cfgs:
            # 100 processes: every (variant, operation) pair is some process's very first crate call
            steps.append(S("c18-alloc", c, shards=100, scale=1.0 if c == "alloc-default" else 0.5))
        # debug-assertion builds may contain extra (allocating) cross-checks
        for c in (["alloc-default", "alloc-naive"] if q else cfgs):
            steps.append(S("c18-alloc", c, profile="dbg", shards=20, scale=0.25))
    elif prop == "C17":
        cfgs = ["default", "unsafe", "naive", "unsafe-naive", "static-sse2", "static-sse41", "static-avx2",
                "unsafe-static-avx2", "strict", "serde-strict", "lowmem-b", "unsafe-lowmem-b"]
        if not q:
            cfgs += ["unsafe-static-sse41", "lowmem-a", "lowmem-c", "embedded", "serde-unsafe-strict"]
        for c in cfgs:
            steps.append(S("c17-fuzz", c, shards=8, scale=1.0 if c in ("default", "unsafe") else 0.25, crash_is_violation=True))
        for c in ["default", "unsafe", "naive", "static-sse41", "strict", "lowmem-b"]:
            steps.append(S("c17-fuzz", c, profile="dbg", shards=8, scale=0.25, crash_is_violation=True))
        for c in ["inv-default", "inv-naive", "inv-serde-strict"]:
            steps.append(S("c17-fuzz", c, shards=8, scale=0.5, crash_is_violation=True))
        # Miri: undefined behaviour, out-of-bounds, invalid SIMD loads, unreachable_unchecked
        # (`default-sse3/-ssse3/-sse41` emulate older CPU classes: Miri's feature detection is the
        #  compile-time target-feature set, so each selects a different rung of the dispatch ladder)
        mcfgs = ["default-avx2", "unsafe-avx2", "unsafe-naive", "unsafe", "default-sse3"] if q else \
            ["default-avx2", "unsafe-avx2", "unsafe-naive", "unsafe", "default", "default-sse3", "default-ssse3", "default-sse41",
             "naive", "static-sse41", "unsafe-static-avx2", "unsafe-lowmem-b", "serde-strict-avx2"]
        for c in mcfgs:
            steps.append(S("c17-fuzz", c, profile="dev", tool="miri", shards=10 if q else 16, scale=0.002 if q else 0.02, timeout=4 * 3600))
        # every compiled SIMD back end called directly under Miri (hooks H4/H5)
        P17 = {"property": "C17"}
        for c in (["default-avx2"] if q else ["default-avx2", "unsafe-avx2", "static-sse41"]):
            pb = dict(P17, expect_dist_backends=DIST_BACKENDS.get(c, 6 if "avx2" in c else 3))
            pa = dict(P17, expect_agg_backends=AGG_BACKENDS.get(c, 5 if "avx2" in c else 2))
            steps.append(S("c02-body", c, profile="dev", tool="miri", shards=16, scale=0.0005 if q else 0.004, params=pb, timeout=4 * 3600))
            steps.append(S("c01-agg", c, profile="dev", tool="miri", shards=8 if q else 16, scale=0.0005 if q else 0.004, params=pa, timeout=4 * 3600))
        # AddressSanitizer: bigger workloads than Miri can afford
        acfgs = ["default", "unsafe"] if q else ["default", "unsafe", "static-sse41", "unsafe-static-avx2", "naive", "unsafe-lowmem-b", "serde-unsafe-strict"]
        for c in acfgs:
            steps.append(S("c17-fuzz", c, tool="asan", shards=8, scale=0.25 if q else 1.0, timeout=2 * 3600))
            pb = dict(P17, expect_dist_backends=DIST_BACKENDS.get(c, 3))
            steps.append(S("c02-body", c, tool="asan", shards=8, scale=1.0, params=pb, timeout=2 * 3600))
        if not q:
            # valgrind memcheck on the plain release binaries of the `unsafe` builds (second opinion)
            for c in ["unsafe", "unsafe-static-avx2", "unsafe-naive"]:
                steps.append(S("c17-fuzz", c, tool="valgrind", shards=16, scale=0.02, timeout=4 * 3600))
        # enabling `unsafe` changes no result: transcripts
        for c in ["naive", "default", "unsafe", "unsafe-naive", "unsafe-static-avx2", "static-avx2"]:
            steps.append(S("c07-transcript", c, shards=4, params={"property": "C17"}))
    return steps


TRANSCRIPT_GROUPS = {
    "lenient": configs.TRANSCRIPT_CONFIGS,
    "strict": ["strict-naive", "strict"],
}


NOSTD_FEATURE_SETS = ["", "t-opt-default", "t-opt-embedded-default", "t-simd",
                      "t-opt-low-memory-buckets,t-strict-parser", "t-simd,t-unsafe,t-opt-default",
                      "t-easy-functions", "t-easy-functions,t-serde,t-opt-default", "t-serde-buffered,t-simd,t-strict-parser"]


NOSTD_ALL = list(NOSTD_FEATURE_SETS)


def nostd_check(helpers, out):
    """Build and run the #![no_std], allocator-less binary in several feature sets (C18)."""
    import subprocess
    crate = os.path.join(helpers.ROOT, "harness-nostd")
    ran = []
    import concurrent.futures

    def build_one(item):
        i, feats = item
        tdir = os.path.join(helpers.BUILD, "t", "nostd-%d" % (NOSTD_ALL.index(feats) if feats in NOSTD_ALL else 90 + i))
        env = helpers.base_env()
        env["CARGO_TARGET_DIR"] = tdir
        env["RUSTFLAGS"] = "--cfg fast_tlsh_verif"
        cmd = ["cargo", "build", "--locked", "--release", "--features", feats]
        return subprocess.run(cmd, cwd=crate, env=env, stdout=subprocess.PIPE, stderr=subprocess.STDOUT, text=True)

    with concurrent.futures.ThreadPoolExecutor(max_workers=6) as ex:
        built = list(ex.map(build_one, list(enumerate(NOSTD_FEATURE_SETS))))
    for i, feats in enumerate(NOSTD_FEATURE_SETS):
        tdir = os.path.join(helpers.BUILD, "t", "nostd-%d" % (NOSTD_ALL.index(feats) if feats in NOSTD_ALL else 90 + i))
        p = built[i]
        info = {"config": "nostd[%s]" % feats, "profile": "rel", "tool": "native", "monitor": "nostd", "params": {"features": feats}}
        if p.returncode != 0:
            out["violations"].append({
                "signature": "nostd|build|%s" % feats, "monitor": "nostd",
                "what": "the #![no_std] allocator-less program no longer builds/links with fast-tlsh features [%s]: %s" % (feats, " / ".join(p.stdout.strip().splitlines()[-6:])[-700:]),
                "case": {"nostd_features": feats, "build_output_tail": "\n".join(p.stdout.splitlines()[-40:])}, "step_info": info})
            continue
        binary = os.path.join(tdir, "release", "tlsh-verif-nostd")
        nm = subprocess.run(["nm", binary], stdout=subprocess.PIPE, stderr=subprocess.DEVNULL, text=True).stdout
        alloc_syms = [l for l in nm.splitlines() if "__rust_alloc" in l or "__rust_realloc" in l or "__rg_alloc" in l]
        try:
            r = subprocess.run([binary], stdout=subprocess.PIPE, stderr=subprocess.STDOUT, text=True, timeout=120)
            rc, txt = r.returncode, r.stdout
        except subprocess.TimeoutExpired:
            out["inconclusive"].append("nostd[%s]: watchdog fired" % feats)
            continue
        if rc != 0 or "nostd-ok" not in txt:
            out["violations"].append({
                "signature": "nostd|run|%s|rc=%s" % (feats, rc), "monitor": "nostd",
                "what": "the allocator-less program built with [%s] failed its self-check (exit status %s, output %r)" % (feats, rc, txt[-200:]),
                "case": {"nostd_features": feats, "exit_status": rc}, "step_info": info})
        elif alloc_syms:
            out["violations"].append({
                "signature": "nostd|alloc-symbols|%s" % feats, "monitor": "nostd",
                "what": "the allocator-less program references the Rust allocator API: %s" % alloc_syms[:3],
                "case": {"nostd_features": feats}, "step_info": info})
        else:
            ran.append(feats or "(none)")
        out["evaluations"] += 1
    out["coverage"]["nostd_feature_sets_built_and_run"] = ran
    out["distinct"] = out.get("distinct", 0) + len(ran)
    out.setdefault("samples", []).append({"monitor": "nostd", "case": {"features": NOSTD_FEATURE_SETS, "ran_ok": ran}})
    out["rule"] = "the #![no_std] #![no_main] program in /verif/harness-nostd (no alloc crate, no global allocator) is built against the working tree in %d feature sets, checked for allocator symbols and executed (generate -> format -> parse -> compare -> binary round trip with a built-in known answer for all five variants)" % len(NOSTD_FEATURE_SETS)


def post_process(prop, tier, seed, steps, monitors_out, helpers):
    run_single = helpers.run_single
    if prop == "C18":
        out = {"violations": [], "inconclusive": [], "evaluations": 0, "coverage": {}}
        if not helpers.only or helpers.only == "nostd":
            nostd_check(helpers, out)
        return out
    if prop == "C01":
        # oracle-vs-oracle: the Rust reference model against the independent Python model
        import subprocess
        out = {"violations": [], "inconclusive": [], "evaluations": 0, "coverage": {}}
        if helpers.native_probe and not helpers.only:
            dump = os.path.join(helpers.BUILD, "runs", "model-dump-%s.txt" % tier)
            n = 40 if tier == "quick" else 600
            try:
                subprocess.run(helpers.native_probe + ["model-dump", "--seed", str(seed), "--param", "n=%d" % n, "--out", dump], check=True, timeout=3600)
                r = subprocess.run([sys.executable, os.path.join(helpers.ROOT, "oracle-py", "ref.py"), "check", dump],
                                   stdout=subprocess.PIPE, stderr=subprocess.STDOUT, text=True, timeout=7200)
                last = r.stdout.strip().splitlines()[-1] if r.stdout.strip() else ""
                out["coverage"]["oracle_vs_oracle"] = last
                if r.returncode != 0:
                    out["inconclusive"].append("the Rust and the Python reference models disagree (verdict withheld): %s" % r.stdout.strip()[:600])
            except Exception as e:  # noqa
                out["inconclusive"].append("oracle-vs-oracle cross-check could not run: %s" % e)
        return out
    if prop not in ("C07", "C17"):
        return None
    out = {"violations": [], "inconclusive": [], "evaluations": 0, "coverage": {}}
    # configuration transcripts: compare block digests with the reference configuration
    by_cfg = {}
    for mo in monitors_out:
        if mo["monitor"] == "c07-transcript" and mo["profile"] == "rel" and mo["tool"] == "native":
            d = {}
            for ent in mo["sets"].get("block-digests", []):
                b, h = ent.split(":")
                d[int(b)] = h
            by_cfg[mo["config"]] = d
            mo["sets"]["block-digests"] = ["%d digests (elided)" % len(d)]
    compared = []
    for group, cfgs in TRANSCRIPT_GROUPS.items():
        present = [c for c in cfgs if c in by_cfg]
        if len(present) < 2:
            continue
        ref = present[0]
        for c in present[1:]:
            a, b = by_cfg[ref], by_cfg[c]
            if set(a) != set(b) or not a:
                out["inconclusive"].append("transcript of %s covers different blocks than %s (%d vs %d)" % (c, ref, len(b), len(a)))
                continue
            out["evaluations"] += len(a)
            compared.append("%s==%s (%d blocks)" % (c, ref, len(a)))
            diff = sorted(k for k in a if a[k] != b[k])
            if not diff:
                continue
            blk = diff[0]
            ra = run_single(ref, "rel", "native", "c07-transcript", {"dump_block": blk})
            rb = run_single(c, "rel", "native", "c07-transcript", {"dump_block": blk})
            wa = wb = None
            idx = None
            try:
                la = ra["samples"][0]["records"]
                lb = rb["samples"][0]["records"]
                for x, y in zip(la, lb):
                    if x != y:
                        wa, wb = x, y
                        idx = int(x.split("|")[0])
                        break
            except Exception as e:  # noqa
                out["inconclusive"].append("could not dump block %d of %s/%s: %s" % (blk, ref, c, e))
                continue
            kind = (wa or "?|?").split("|")[1]
            out["violations"].append({
                "signature": "transcript|%s-vs-%s|%s" % (c, ref, kind),
                "monitor": "c07-transcript",
                "what": "configuration %s differs from %s at operation %s (%d differing blocks): %s  VERSUS  %s" % (c, ref, idx, len(diff), wb, wa),
                "case": {"op_index": idx, "config_a": ref, "config_b": c, "record_a": wa, "record_b": wb, "differing_blocks": len(diff)},
                "step_info": {"config": c, "profile": "rel", "tool": "native", "monitor": "c07-transcript", "params": {}},
            })
    out["coverage"]["transcripts_compared"] = compared
    return out


def replay_special(prop, rp, path):
    if rp.get("monitor") == "nostd":
        import types
        import main as M
        out = {"violations": [], "inconclusive": [], "evaluations": 0, "coverage": {}}
        helpers = types.SimpleNamespace(base_env=M.base_env, BUILD=M.BUILD, ROOT=M.ROOT)
        global NOSTD_FEATURE_SETS
        saved = NOSTD_FEATURE_SETS
        NOSTD_FEATURE_SETS = [rp.get("case", {}).get("nostd_features", "")]
        try:
            nostd_check(helpers, out)
        finally:
            NOSTD_FEATURE_SETS = saved
        if out["violations"]:
            print("VIOLATION property=%s replay=%s" % (prop, path))
            print("  what: %s" % out["violations"][0]["what"][:600])
            return 1
        print("replay: the allocator-less program builds and passes its self-check")
        return 0
    if rp.get("monitor") == "c07-transcript" and rp.get("case", {}).get("config_a"):
        import main as M
        c = rp["case"]
        recs = []
        for cfg in (c["config_a"], c["config_b"]):
            b = M.build(cfg, "rel", "native")
            blk = int(c["op_index"]) // 256
            st = Step("c07-transcript", cfg, shards=1, params={"dump_block": blk})
            od = os.path.join(M.BUILD, "runs", prop + "-replay", cfg)
            os.makedirs(od, exist_ok=True)
            r = M.run_shard(st, b, "quick", int(rp.get("seed", os.environ.get("VERIF_SEED", "0") or 0)), 0, od)
            lines = r["report"]["samples"][0]["records"] if r["report"] else []
            recs.append([l for l in lines if l.startswith("%d|" % int(c["op_index"]))])
        if recs[0] != recs[1]:
            print("VIOLATION property=%s replay=%s" % (prop, path))
            print("  what: %s VERSUS %s" % (recs[1], recs[0]))
            return 1
        print("replay: both configurations agree on the recorded operation")
        return 0
    return None


def setup(build):
    """Build every configuration the quick tiers need (warm caches)."""
    import concurrent.futures
    keys = []
    for prop in ["C%02d" % i for i in range(1, 19)]:
        for s in plan(prop, "quick"):
            k = (s.config, s.profile, s.tool)
            if k not in keys:
                keys.append(k)
    failed = 0
    with concurrent.futures.ThreadPoolExecutor(max_workers=6) as ex:
        futs = {ex.submit(build, *k): k for k in keys}
        for fut in concurrent.futures.as_completed(futs):
            try:
                fut.result()
            except Exception as e:  # a configuration that does not build is reported by the checks
                print("setup: %s" % e, file=sys.stderr)
                failed += 1
    print("setup: %d configurations built, %d failed" % (len(keys) - failed, failed))
    return 0
