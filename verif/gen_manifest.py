#!/usr/bin/env python3
"""Regenerate /verif/MANIFEST.json from the tables below + plans.py."""
import json
import os
import subprocess
import sys

HERE = os.path.dirname(os.path.abspath(__file__))
ROOT = os.path.dirname(HERE)
sys.path.insert(0, HERE)
import plans  # noqa: E402

# property -> (technique, level text, level note, design ref)
CLAIMS = {
    "C01": (
        "reference-model monitor at the API, injected-state, bucket-mapping and back-end level; debug-assertion/overflow-check builds",
        "Runtime monitoring: every finalize result of the real crate on seeded, boundary-biased inputs x 5 variants x 32 option settings is compared with an independent executable model of the TLSH reference; generator states unreachable without multi-GiB inputs are injected through a hook and finalized by both; both bucket-mapping functions are enumerated (all 2^32 tuples in the thorough tier); every compiled aggregation back end is driven directly. Held on the executions observed, not a proof.",
        "Trusts the reference model in harness/src/oracle.rs (validated against the repository's official KAT vectors and a second Python model) and the hook H2/H3/H5 wrappers; sampled input space.",
        "DESIGN.md §3 C01",
    ),
}


_T = "Held on the executions observed (counts in the evidence file), not a proof."
CLAIMS.update({
    "C02": ("reference-model monitor per part, per body byte position and per SIMD back end",
            "Runtime monitoring: the distance reported by the real crate is compared with the literal reference formula for every header byte position x all 256x256 value pairs, for all 256x256 byte pairs at every body position (and all 65 536 values of adjacent byte pairs) through every compiled back end (dispatch, pseudo-SIMD 32/64, SSE2, SSE4.1, AVX2) called directly via hook H4, and for millions of seeded whole pairs through the public API. " + _T,
            "Trusts the ~40-line distance model in oracle.rs (itself checked against the C08 laws) and the H4 wrappers; whole-hash pairs are sampled, per-term domains are enumerated.", "DESIGN.md §3 C02"),
    "C03": ("history-vs-single-shot monitor (differential law) + reference model, with internal-state diagnostic",
            "Runtime monitoring: seeded histories of update pieces (tiny pieces dominate), interleaved finalize calls and clone-and-continue forks are executed on the real generator; processed_len and all 32 finalize results of the main line and every fork are compared with a fresh single-shot generator, again after identical continuations, and byte-by-byte feeding is compared with the reference model; all 35 (tail fill x piece size class) transitions must be seen. " + _T,
            "Sampled histories; the single-shot generator of the same build is the oracle (plus the reference model on a subset).", "DESIGN.md §3 C03"),
    "C04": ("round-trip law + codec model over every hex-table configuration",
            "Runtime monitoring: for seeded values and all 256 values at every byte position, every formatting route is compared with the canonical text model and parsed back through every parse entry point and prefix mode; random-case / optional-prefix spellings must re-format canonically; run in every hex encode/decode table configuration incl. hex-simd and the 'unsafe' feature. " + _T,
            "Trusts the 60-line codec model; values are sampled except the per-position enumeration.", "DESIGN.md §3 C04"),
    "C05": ("acceptance monitor against the codec model; panic capture",
            "Runtime monitoring: every position of accepted strings x all 256 byte values x 3 prefix modes x 3 entry points, every length 0..=2*LEN+2, prefix look-alikes and seeded byte soups are parsed by the real crate under catch_unwind; acceptance, value and error kind are compared with the codec model (set of applicable errors; wrong length must be the length error), in every digit-decoder configuration, release and debug-assertion builds. " + _T,
            "Trusts the codec model; byte soups are sampled, single-byte corruptions are enumerated on seeded base strings.", "DESIGN.md §3 C05"),
    "C06": ("layout law + codec model",
            "Runtime monitoring: seeded byte arrays, all 256 values at every position and slices of every length 0..=2N go through both TryFrom impls; store round trip, all accessors incl. quartile(i) for every i, hex == nibble-swapped header + body, clear_checksum and the documented out-of-range panic are checked. " + _T,
            "Trusts the field layout stated in the property; sampled values.", "DESIGN.md §3 C06"),
    "C08": ("algebraic-law monitor (no oracle), antipodal construction for attainment",
            "Runtime monitoring: reflexivity, identity, symmetry, bound, mode relation and the clear_checksum relation are checked on millions of seeded pairs (random, neighbours, equal, antipodal) per variant and mode; the antipodal construction must attain max_distance, and max_distance must equal the documented sum. " + _T,
            "Sampled pairs; laws need no oracle.", "DESIGN.md §3 C08"),
    "C09": ("exhaustive enumeration of all 2^32 lengths against a linear-scan model",
            "Runtime monitoring with complete enumeration: all 2^32 lengths go through new()/try_from (both tiers) and are compared with an incremental linear scan over an independently typed table (acceptance, code, monotonicity, membership in range()); all 256 codes are checked for validity/range/tiling; generated hashes carry code(n) at every table edge. The input space of the stated quantifier is covered completely; the table itself is cross-checked with TLSH's closed form at range midpoints.",
            "Trusts the independently typed table (validated by the closed form l_capturing at all 170 midpoints and by the repository's KATs).", "DESIGN.md §3 C09"),
    "C10": ("lattice-law monitor over all 32 option settings + published validity classification",
            "Runtime monitoring: for threshold-biased inputs and injected states around MAX, all 32 option settings are evaluated and every comparable pair of the permissiveness order is checked (success stays the same success), length errors are compared with DataLengthValidity, quarter implies half, and the generator's published constants are probed behaviourally. " + _T,
            "The published DataLengthValidity is the oracle, as the property states; sampled inputs.", "DESIGN.md §3 C10"),
    "C11": ("reference model continued from injected states; real multi-GiB streams in the thorough tier",
            "Runtime monitoring: histories start from injected states 0..64 bytes before the 4 224 281 216-byte and 2^32-byte marks and feed pieces that end on, start on and cross the marks (incl. one 70 MB piece crossing both); after every piece processed_len, the TooLargeInput gate and finalize results are compared with the model; debug builds catch counter overflow; the thorough tier feeds real 4.2 GB streams and one single >4 GiB slice. " + _T,
            "Trusts hook H2 (validated against real streams in the thorough tier) and the reference model.", "DESIGN.md §3 C11"),
    "C12": ("scripted fault-injecting reader vs buffer hash",
            "Runtime monitoring with fault injection: scripted readers (short reads of 1..5 bytes, random sizes, Interrupted before/between/after reads, six kinds of hard errors of every io::ErrorKind, early EOF, interruption storms, streams above 1 MiB) drive hash_stream_for for all five variants; real OS pipes with a slow writer and signal-induced EINTR (handler without SA_RESTART) exercise the same path with genuine kernel behaviour; the result must equal hash_buf of the delivered bytes or Err(IOError(kind)); files of boundary sizes and a missing path are hashed. " + _T,
            "hash_buf of the same build is the oracle (C01 ties it to the reference); sampled scripts.", "DESIGN.md §3 C12"),
    "C13": ("helper vs parse-then-compare (law) + codec and distance models",
            "Runtime monitoring: string pairs from the full (left kind x right kind) grid of {accepted, wrong length, bad prefix, bad character, strict-invalid} are compared through compare_with::<T> against parse-both-then-compare (side and error kind) and against the models. " + _T,
            "The crate's parser is the oracle for error kinds (C05 ties it to the model).", "DESIGN.md §3 C13"),
    "C14": ("canary-buffer monitor + codec model",
            "Runtime monitoring: every buffer length 0..=N+64 (N+4096 thorough) x 3 forms x 3 prior contents; the buffer is an inner slice with guard bytes on both sides; gate, written prefix, untouched remainder and guards are checked in every encoder configuration incl. hex-simd. " + _T,
            "Sampled hash values; all lengths near N enumerated.", "DESIGN.md §3 C14"),
    "C15": ("strict = lenient model + gates, gate table enumerated; generated hashes monitored",
            "Runtime monitoring in strict-parser builds: the C05 text corpus and C06 byte corpus against the codec model with the two gates, all 256 length codes x 256 checksum bytes exhaustively (text and binary, all entry points), and every generated hash (all options) checked for validity and strict round trip; the validity of generated hashes is also monitored in non-strict builds. " + _T,
            "Trusts the codec model with gates.", "DESIGN.md §3 C15"),
})

CLAIMS.update({
    "C07": ("configuration-transcript equality, every back end in one binary (hooks H4/H5), first-call schedules with dispatch observer (H6), Miri/TSan",
            "Runtime monitoring: (1) a fixed seeded corpus of API operations is executed by one probe binary per build configuration and the canonical records are compared block-digest-wise with the all-naive build (first differing record is the witness; a supported configuration that stops building is a violation); (2) every compiled SSE2/SSSE3/SSE4.1/AVX2/pseudo-SIMD back end is called directly and compared with the model; (3) hundreds of fresh processes let N threads make the process's first calls concurrently while a hook records which thread ran each dispatch initialiser and which calls overlapped it, with results compared with the model. " + _T,
            "Configurations are a covering set of the feature lattice on x86_64 (not all 2^20 combinations); CPUs other than this one are reached through static target-features only; schedules are sampled.", "DESIGN.md §3 C07"),
    "C16": ("real formats (JSON, CBOR, postcard) + scripted mock Deserializer/Serializer, panic capture",
            "Runtime monitoring in four serde feature sets: exact encodings and round trips in three real formats; valid and mutated documents must deserialize exactly when they carry a payload the matching parser accepts; a scripted mock Deserializer drives is_human_readable x 18 visitor events x 9 payload classes under catch_unwind (matching events must agree exactly with the parser, wrong types must be errors, never a panic); a mock Serializer records what is emitted. " + _T,
            "The crate's own parsers are the oracle for acceptance (C05/C06/C15 tie them to the model); sampled values and mutations.", "DESIGN.md §3 C16"),
    "C17": ("sanitizing executions (debug-assertion/overflow-check builds, Miri, AddressSanitizer, valgrind) of an API fuzz with adversarial trait implementations; panic classifier; invariant!() observer (hook H7); unsafe-vs-safe transcript equality",
            "Runtime monitoring: an API fuzz over 12 operation kinds plus 8 adversarial Read implementations runs in ten (quick) configurations incl. feature 'unsafe' and static SSE2/SSE4.1/AVX2, in release and in debug-assertion + overflow-check builds; any abnormal process termination, any unexpected panic, any invariant!() expression observed false (or falsifiable by a safe trait implementation) is a violation; Miri / ASan / valgrind runs of the same workload report undefined behaviour and out-of-bounds accesses; transcripts of unsafe-feature builds must equal the safe ones. " + _T,
            "A clean sanitizer run is not memory safety: only executed paths are judged; NEON/wasm back ends are not executable here.", "DESIGN.md §3 C17"),
    "C18": ("counting #[global_allocator] with a per-thread window, first-call processes, positive controls; allocator-less no_std binary",
            "Runtime monitoring: 20 operation kinds x 5 variants run inside an allocator-observation window on seeded inputs in seven configurations; 100 processes per configuration make each (variant, operation) pair the very first crate call of a process (dispatch initialisation, hex-simd detection); any allocator call is a violation; to_string and hash_stream must be seen to allocate (the counter is live); a #![no_std], allocator-less binary is built in four feature sets and executed. " + _T,
            "Observes the calling thread's allocator calls only (the crate spawns no threads); sampled inputs.", "DESIGN.md §3 C18"),
})

NOT_YET = "check not built yet in this round (work in progress; see DESIGN.md §3)"


def main():
    props = [json.loads(l) for l in open(os.path.join(ROOT, "properties.jsonl"))]
    try:
        commits = subprocess.run(["git", "-C", "/repo", "log", "--format=%H %s", "--grep=^verif hooks:"],
                                 stdout=subprocess.PIPE, text=True).stdout.strip().splitlines()
    except Exception:
        commits = []
    checks = []
    not_applicable = []
    for p in props:
        pid = p["id"]
        if pid in CLAIMS and plans.plan(pid, "quick"):
            tech, text, note, ref = CLAIMS[pid]
            checks.append({
                "property_id": pid,
                "quick_cmd": "./check %s --tier quick" % pid,
                "thorough_cmd": "./check %s --tier thorough" % pid,
                "evidence_file": "/verif/evidence/%s.json" % pid,
                "replay_cmd_template": "./check %s --replay {path}" % pid,
                "engine": "probe",
                "level_claimed": {"category": "exploration", "text": text, "design_ref": ref},
                "level_note": note,
                "technique": tech,
            })
        else:
            not_applicable.append({"property_id": pid, "reason": NOT_YET})
    manifest = {
        "version": 1,
        "setup_cmd": "./check setup",
        "hooks": {
            "guard": "fast_tlsh_verif",
            "enable": "RUSTFLAGS=\"--cfg fast_tlsh_verif\" (set by ./check for every build of /verif/harness, which path-depends on /repo/fast-tlsh); the invariant observer additionally needs --cfg fast_tlsh_verif_invariants",
            "baseline_off_cmd": "cd /repo && (cargo nextest run --workspace --no-fail-fast --tool-config-file pb:/w/lib/nextest.toml --profile pb --test-threads 8 --offline || cargo test --workspace --no-fail-fast --offline)",
            "source_commits": [c.split(" ")[0] for c in reversed(commits)],
            "add_only": True,
        },
        "engines": [
            {"name": "probe", "path": "/verif/harness", "serves_properties": [c["property_id"] for c in checks],
             "kind_free_text": "Rust probe binary (reference models + monitors + workload generators) built per configuration against /repo's working tree with hooks on, run natively (release and debug-assertion/overflow-check profiles) and under Miri / AddressSanitizer / ThreadSanitizer / valgrind; orchestrated by /verif/verif/main.py"},
        ],
        "checks": checks,
        "not_applicable": not_applicable,
        "notes": "Verdicts are three-valued: exit 0 held on what was observed, exit 1 VIOLATION (replay file written), exit 2 INCONCLUSIVE (tool died, watchdog, coverage floor not reached). Known findings: /verif/KNOWN_FINDINGS.json.",
    }
    with open(os.path.join(ROOT, "MANIFEST.json"), "w") as f:
        json.dump(manifest, f, indent=1)
        f.write("\n")
    print("MANIFEST.json: %d checks, %d not_applicable" % (len(checks), len(not_applicable)))


if __name__ == "__main__":
    main()
