//! C04 (text round trip), C05 (parser acceptance), C06 (binary form / accessors),
//! C14 (caller buffers), C15 (strict parser).

use crate::gen;
use crate::json::Json;
use crate::oracle::{self, PErr};
use crate::report::{guard, Report};
use crate::rng::{fingerprint, Rng};
use crate::variant::{parse_err_name, Variant};
use crate::{all_variants, Ctx};
use std::str::FromStr;
use tlsh::{FuzzyHashType, HexStringPrefix, OperationError, ParseError};

pub fn strict() -> bool {
    cfg!(feature = "strict")
}

pub fn perr(e: &ParseError) -> Option<PErr> {
    Some(match e {
        ParseError::InvalidStringLength => PErr::Length,
        ParseError::InvalidPrefix => PErr::Prefix,
        ParseError::InvalidCharacter => PErr::Character,
        ParseError::InvalidChecksum => PErr::Checksum,
        ParseError::LengthIsTooLarge => PErr::LengthCode,
        _ => return None,
    })
}

pub fn mode_of(m: u8) -> Option<HexStringPrefix> {
    match m {
        0 => None,
        1 => Some(HexStringPrefix::Empty),
        _ => Some(HexStringPrefix::WithVersion),
    }
}

pub const MODE_NAMES: [&str; 3] = ["None", "Some(Empty)", "Some(WithVersion)"];

/// Store into an exactly sized buffer.
fn text_of<V: Variant>(h: &V::H, with_prefix: bool) -> Result<Vec<u8>, OperationError> {
    let n = if with_prefix { V::LEN_STR } else { V::LEN_STR - 2 };
    let mut buf = vec![0u8; n];
    let r = h.store_into_str_bytes(
        &mut buf,
        if with_prefix { HexStringPrefix::WithVersion } else { HexStringPrefix::Empty },
    )?;
    buf.truncate(r);
    Ok(buf)
}

fn bytes_of<V: Variant>(h: &V::H) -> Vec<u8> {
    let mut buf = vec![0u8; V::SIZE];
    let n = h.store_into_bytes(&mut buf).unwrap_or(0);
    buf.truncate(n);
    buf
}

// ---------------------------------------------------------------------------
// C04

pub fn c04_value<V: Variant>(b: &[u8], rep: &mut Report) {
    let case = || Json::obj().with("variant", V::NAME).with("hash_bytes", Json::hex(b));
    let r = guard(|| {
        let h = match V::from_array(b) {
            Ok(h) => h,
            Err(_) => return None,
        };
        let mut problems: Vec<(String, String)> = Vec::new();
        let exp_p = oracle::encode_text(b, V::CK, true);
        let exp_n = oracle::encode_text(b, V::CK, false);
        let disp = format!("{}", h);
        let tos = h.to_string();
        let sp = text_of::<V>(&h, true);
        let sn = text_of::<V>(&h, false);
        let routes: [(&str, Vec<u8>, &Vec<u8>); 4] = [
            ("Display", disp.clone().into_bytes(), &exp_p),
            ("to_string", tos.into_bytes(), &exp_p),
            ("store(WithVersion)", sp.unwrap_or_default(), &exp_p),
            ("store(Empty)", sn.unwrap_or_default(), &exp_n),
        ];
        for (name, got, exp) in routes.iter() {
            if got != *exp {
                problems.push((
                    format!("format|{}", name),
                    format!(
                        "{} gives {:?}, canonical text is {:?}",
                        name,
                        String::from_utf8_lossy(got),
                        String::from_utf8_lossy(exp)
                    ),
                ));
            }
            let digits = if got.starts_with(b"T1") && got.len() == V::LEN_STR { &got[2..] } else { &got[..] };
            if digits.len() != V::LEN_STR - 2 || !digits.iter().all(|c| c.is_ascii_digit() || (b'A'..=b'F').contains(c)) {
                problems.push((format!("charset|{}", name), format!("{} output is not [T1] + uppercase hex of the advertised length", name)));
            }
        }
        // parse back through every entry point
        let sp = String::from_utf8_lossy(&exp_p).into_owned();
        let sn = String::from_utf8_lossy(&exp_n).into_owned();
        let mut back: Vec<(&str, Result<V::H, ParseError>)> = vec![
            ("FromStr(prefixed)", V::H::from_str(&disp)),
            ("FromStr(bare)", V::H::from_str(&sn)),
            ("from_str_with(prefixed,None)", V::H::from_str_with(&sp, None)),
            ("from_str_with(bare,None)", V::H::from_str_with(&sn, None)),
            ("from_str_with(prefixed,WithVersion)", V::H::from_str_with(&sp, Some(HexStringPrefix::WithVersion))),
            ("from_str_with(bare,Empty)", V::H::from_str_with(&sn, Some(HexStringPrefix::Empty))),
            ("from_str_bytes(prefixed,None)", V::H::from_str_bytes(&exp_p, None)),
            ("from_str_bytes(bare,None)", V::H::from_str_bytes(&exp_n, None)),
            ("from_str_bytes(prefixed,WithVersion)", V::H::from_str_bytes(&exp_p, Some(HexStringPrefix::WithVersion))),
            ("from_str_bytes(bare,Empty)", V::H::from_str_bytes(&exp_n, Some(HexStringPrefix::Empty))),
        ];
        // what the crate itself printed must parse back as well
        back.push(("FromStr(Display output)", V::H::from_str(&disp)));
        for (name, r) in back {
            match r {
                Ok(h2) if h2 == h => {}
                Ok(_) => problems.push((format!("roundtrip|{}", name), format!("{} yields a different hash", name))),
                Err(e) => problems.push((format!("roundtrip|{}", name), format!("{} fails with {}", name, parse_err_name(&e)))),
            }
        }
        Some((problems, back_len()))
    });
    fn back_len() -> u64 {
        15
    }
    match r {
        Err(p) => rep.violation(&format!("c04|{}|panic", V::NAME), &format!("panic: {} at {}", p.message, p.location), case()),
        Ok(None) => rep.count("not_constructible", 1),
        Ok(Some((problems, n))) => {
            rep.eval(n);
            for (k, w) in problems {
                rep.violation(&format!("c04|{}|{}", V::NAME, k), &w, case());
            }
        }
    }
}

/// An accepted string in random letter case, with or without prefix, re-formats to its canonical form.
pub fn c04_accepted<V: Variant>(s: &[u8], rep: &mut Report) {
    let case = || Json::obj().with("variant", V::NAME).with("text", Json::hex(s));
    // every prefix mode of the parser: whatever any of them accepts must be a spelling of the
    // canonical form ("T1" exactly, or no prefix, then the digits in either case)
    let modes: [(&str, Option<HexStringPrefix>); 3] = [("None", None), ("WithVersion", Some(HexStringPrefix::WithVersion)), ("Empty", Some(HexStringPrefix::Empty))];
    for (mi, (mode_name, mode)) in modes.into_iter().enumerate() {
        let r = guard(|| {
            let h = V::H::from_str_bytes(s, mode).ok()?;
            Some((format!("{}", h), text_of::<V>(&h, true).unwrap_or_default()))
        });
        rep.eval(2);
        match r {
            Err(p) => rep.violation(&format!("c04|{}|panic", V::NAME), &format!("panic ({}): {} at {}", mode_name, p.message, p.location), case()),
            Ok(None) => {
                if mi == 0 {
                    rep.count("accepted_string_rejected", 1)
                }
            }
            Ok(Some((disp, stored))) => {
                rep.count(&format!("accepted_in_mode:{}", mode_name), 1);
                let shape_ok = match mi {
                    0 => s.len() == V::LEN_STR - 2 || s.len() == V::LEN_STR && s.starts_with(b"T1"),
                    1 => s.len() == V::LEN_STR && s.starts_with(b"T1"),
                    _ => s.len() == V::LEN_STR - 2,
                };
                let body = if s.len() == V::LEN_STR { &s[2..] } else { s };
                let mut canon = b"T1".to_vec();
                canon.extend(body.iter().map(|c| c.to_ascii_uppercase()));
                if !shape_ok {
                    rep.violation(
                        &format!("c04|{}|accepted-noncanonical-shape|{}", V::NAME, mode_name),
                        &format!(
                            "from_str_bytes(.., {}) accepted {:?} ({} bytes), which is not a spelling of any canonical form; it re-formats to {:?}",
                            mode_name,
                            String::from_utf8_lossy(s),
                            s.len(),
                            disp
                        ),
                        case(),
                    );
                } else if disp.as_bytes() != canon.as_slice() || stored != canon {
                    rep.violation(
                        &format!("c04|{}|canonical", V::NAME),
                        &format!(
                            "accepted {:?} ({}) re-formats to {:?}, expected {:?}",
                            String::from_utf8_lossy(s),
                            mode_name,
                            disp,
                            String::from_utf8_lossy(&canon)
                        ),
                        case(),
                    );
                }
            }
        }
    }
}

pub fn random_case_text<V: Variant>(rng: &mut Rng, b: &[u8]) -> Vec<u8> {
    let mut s = oracle::encode_text(b, V::CK, rng.chance(1, 2));
    let start = if s.len() == V::LEN_STR { 2 } else { 0 };
    let style = rng.below(3);
    for c in s[start..].iter_mut() {
        if c.is_ascii_uppercase() && (style == 0 || style == 1 && rng.chance(1, 2)) {
            *c = c.to_ascii_lowercase();
        }
    }
    s
}

fn c04_variant<V: Variant>(ctx: &Ctx, rep: &mut Report) {
    let n = ctx.n(60_000, 3_000_000);
    for i in 0..n {
        let mut rng = ctx.rng("c04", (V::INDEX as u64) << 48 | i);
        let b = gen::hash_bytes(&mut rng, V::SIZE, V::CK, V::NB, strict());
        c04_value::<V>(&b, rep);
        let s = random_case_text::<V>(&mut rng, &b);
        c04_accepted::<V>(&s, rep);
        // whatever else the parser accepts must be a spelling of the canonical form too:
        // near misses of an accepted string (one or two bytes replaced)
        for _ in 0..3 {
            let mut m = s.clone();
            for _ in 0..rng.range(1, 2) {
                let p = if m.len() == V::LEN_STR && rng.chance(1, 4) { rng.below(2) as usize } else { rng.below(m.len() as u64) as usize };
                m[p] = match rng.below(4) {
                    0 => rng.next_u8(),
                    1 => *rng.pick(&[b'G', b'g', b'@', b'`', b'/', b':', b'O', b'o', b'l', b' ', 0u8]),
                    2 => m[p] ^ 0x20,
                    _ => m[p].wrapping_add(*rng.pick(&[1u8, 255, 7, 16, 48])),
                };
            }
            rep.count("near_misses_tried", 1);
            let before = rep.counters.get("accepted_string_rejected").copied().unwrap_or(0);
            c04_accepted::<V>(&m, rep);
            if rep.counters.get("accepted_string_rejected").copied().unwrap_or(0) == before {
                rep.count("near_misses_accepted", 1);
            }
        }
        let mut fp = b.clone();
        fp.push(V::INDEX as u8);
        rep.distinct(fingerprint(&fp));
        if rep.want_sample() && i == 5 {
            rep.sample(
                Json::obj()
                    .with("variant", V::NAME)
                    .with("hash_bytes", Json::hex(&b))
                    .with("canonical_text", String::from_utf8_lossy(&oracle::encode_text(&b, V::CK, true)).into_owned())
                    .with("accepted_variant", String::from_utf8_lossy(&s).into_owned()),
            );
        }
    }
    // every byte position x all 256 values (covers every table row at every field)
    let mut rng = ctx.rng("c04-pos", V::INDEX as u64);
    let base = gen::hash_bytes(&mut rng, V::SIZE, V::CK, V::NB, true);
    let (lo, hi) = ctx.slice(V::SIZE as u64);
    let xstep = if ctx.scale < 1.0 { 51 } else { 1 };
    for p in lo..hi {
        if ctx.scale < 1.0 && p % 5 != ctx.seed % 5 && p as usize != V::CK && p as usize != V::CK + 1 {
            continue;
        }
        for x in (0..=255u8).step_by(xstep) {
            let mut b = base.clone();
            b[p as usize] = x;
            c04_value::<V>(&b, rep);
            rep.count("distinct_by_construction", 1);
        }
        rep.count("c04:positions_enumerated", 1);
    }
}

pub fn run_c04(ctx: &Ctx, rep: &mut Report) {
    rep.rule = "seeded hash values of all five variants (any byte pattern; strict-valid ones in strict-parser builds) plus all 256 values at every byte position: Display / to_string / store_into_str_bytes (both prefixes) compared with the canonical text model, length and charset checked, parsed back through FromStr / from_str_with / from_str_bytes x {None, Empty, WithVersion}; random-case / optional-prefix spellings must re-format to the canonical upper-case prefixed form; near misses of accepted strings (a quarter aimed at the prefix characters) parsed in all three prefix modes: whatever a mode accepts must have the canonical shape for that mode and re-format canonically; distinct by fingerprint of (variant, value)".into();
    all_variants!(c04_variant, ctx, rep);
    rep.floor("c04:positions_enumerated", 1);
}

// ---------------------------------------------------------------------------
// C05 / C15 text side

/// Compare one parse of `s` in `mode` with the codec model.
pub fn parse_check<V: Variant>(s: &[u8], mode: u8, rep: &mut Report) {
    let case = || {
        Json::obj()
            .with("variant", V::NAME)
            .with("text", Json::hex(s))
            .with("mode", mode)
    };
    let exp = oracle::decode_text(s, V::SIZE, V::CK, V::NB, mode, strict());
    let r = guard(|| {
        let a = V::H::from_str_bytes(s, mode_of(mode)).map(|h| bytes_of::<V>(&h));
        let b = std::str::from_utf8(s).ok().map(|st| {
            (
                V::H::from_str_with(st, mode_of(mode)).map(|h| bytes_of::<V>(&h)),
                if mode == 0 { Some(V::H::from_str(st).map(|h| bytes_of::<V>(&h))) } else { None },
            )
        });
        (a, b)
    });
    let (a, b) = match r {
        Err(p) => {
            rep.violation(
                &format!("parse|{}|panic", V::NAME),
                &format!("parser panicked on {} bytes (mode {}): {} at {}", s.len(), MODE_NAMES[mode as usize], p.message, p.location),
                case(),
            );
            return;
        }
        Ok(x) => x,
    };
    let mut check = |entry: &str, got: &Result<Vec<u8>, ParseError>| {
        rep.eval(1);
        match (got, &exp) {
            (Ok(g), Ok(e)) => {
                rep.count("parse:accepted", 1);
                if g != e {
                    rep.violation(
                        &format!("parse|{}|wrong-value", V::NAME),
                        &format!("{} ({}): value {} but the digits denote {}", entry, MODE_NAMES[mode as usize], crate::json::hex(g), crate::json::hex(e)),
                        case(),
                    );
                }
            }
            (Ok(_), Err(es)) => rep.violation(
                &format!("parse|{}|accepts-malformed|{}", V::NAME, es[0].name()),
                &format!("{} ({}) accepts {:?} although {:?} applies", entry, MODE_NAMES[mode as usize], String::from_utf8_lossy(s), es.iter().map(|e| e.name()).collect::<Vec<_>>()),
                case(),
            ),
            (Err(e), Ok(_)) => rep.violation(
                &format!("parse|{}|rejects-wellformed|{}", V::NAME, parse_err_name(e)),
                &format!("{} ({}) rejects well-formed {:?} with {}", entry, MODE_NAMES[mode as usize], String::from_utf8_lossy(s), parse_err_name(e)),
                case(),
            ),
            (Err(e), Err(es)) => {
                rep.count(&format!("parse:err:{}", parse_err_name(e)), 1);
                let ok = perr(e).map(|p| es.contains(&p)).unwrap_or(false);
                if !ok {
                    rep.violation(
                        &format!("parse|{}|wrong-error|got={}|applicable={}", V::NAME, parse_err_name(e), es.iter().map(|e| e.name()).collect::<Vec<_>>().join("+")),
                        &format!("{} ({}) on {:?}: error {} but applicable errors are {:?}", entry, MODE_NAMES[mode as usize], String::from_utf8_lossy(s), parse_err_name(e), es.iter().map(|e| e.name()).collect::<Vec<_>>()),
                        case(),
                    );
                }
            }
        }
    };
    check("from_str_bytes", &a);
    if let Some((w, f)) = b {
        check("from_str_with", &w);
        if let Some(f) = f {
            check("FromStr", &f);
        }
    }
}

fn c05_variant<V: Variant>(ctx: &Ctx, rep: &mut Report) {
    let bases = if ctx.scale < 1.0 { 1 } else if ctx.thorough() { 64 } else { 4 };
    // (a) every position x all 256 byte values substituted into accepted strings
    for r in 0..bases {
        let mut rng = ctx.rng("c05-base", (V::INDEX as u64) << 32 | r);
        let b = gen::hash_bytes(&mut rng, V::SIZE, V::CK, V::NB, true);
        for with_prefix in [false, true] {
            let s0 = {
                let mut s = oracle::encode_text(&b, V::CK, with_prefix);
                if rng.chance(1, 2) {
                    let st = if with_prefix { 2 } else { 0 };
                    for c in s[st..].iter_mut() {
                        if rng.chance(1, 2) {
                            *c = c.to_ascii_lowercase();
                        }
                    }
                }
                s
            };
            for p in 0..s0.len() {
                if (p as u64 + r) % ctx.nshards != ctx.shard {
                    continue;
                }
                if ctx.scale < 1.0 && p % 13 != (ctx.seed % 13) as usize {
                    continue;
                }
                let step = if ctx.scale < 1.0 { 17 } else { 1 };
                let mut x = 0usize;
                while x < 256 {
                    let mut s = s0.clone();
                    s[p] = x as u8;
                    for mode in 0..3u8 {
                        parse_check::<V>(&s, mode, rep);
                    }
                    rep.count("distinct_by_construction", 1);
                    x += step;
                }
                rep.count("c05:positions_enumerated", 1);
            }
        }
    }
    // (a2) both characters of an aligned digit pair: all 256 x 256 combinations at every header
    //      pair and at a few body pairs (the complete domain of the two-character decoders)
    if ctx.scale >= 1.0 {
        let mut rng = ctx.rng("c05-pairs", V::INDEX as u64);
        let b = gen::hash_bytes(&mut rng, V::SIZE, V::CK, V::NB, true);
        let s0 = oracle::encode_text(&b, V::CK, false);
        let npairs = V::SIZE;
        let mut pairs: Vec<usize> = (0..V::CK + 2).collect();
        if V::NB == 48 {
            pairs.extend(V::CK + 2..npairs);
        } else {
            pairs.extend([V::CK + 2, V::CK + 3, V::CK + 2 + 7, V::CK + 2 + 16, npairs - 1]);
        }
        for (k, &pi) in pairs.iter().enumerate() {
            if (k as u64 + V::INDEX as u64) % ctx.nshards != ctx.shard {
                continue;
            }
            for x in 0..=255u8 {
                for y in 0..=255u8 {
                    let mut s = s0.clone();
                    s[2 * pi] = x;
                    s[2 * pi + 1] = y;
                    parse_check::<V>(&s, 1, rep);
                    if x % 16 == 3 {
                        // the same pair behind the prefix, auto-detected
                        let mut t = b"T1".to_vec();
                        t.extend_from_slice(&s);
                        parse_check::<V>(&t, 0, rep);
                    }
                }
            }
            rep.count("distinct_by_construction", 65536);
            rep.count("c05:pairs_enumerated", 1);
        }
    }
    // (b) every length 0..=2*LEN+2, random and all-hex content; prefix look-alikes
    if ctx.shard == (V::INDEX as u64) % ctx.nshards {
        let mut rng = ctx.rng("c05-len", V::INDEX as u64);
        for len in (0..=(2 * V::LEN_STR + 2)).step_by(if ctx.scale < 1.0 { 9 } else { 1 }) {
            for kind in 0..4 {
                let mut s: Vec<u8> = match kind {
                    0 => rng.bytes(len),
                    1 => (0..len).map(|_| oracle::HEXU[rng.below(16) as usize]).collect(),
                    2 => (0..len).map(|_| b"0123456789abcdefABCDEF"[rng.below(22) as usize]).collect(),
                    _ => (0..len).map(|_| *rng.pick(&[b'G', b'g', b'@', b'`', b'/', b':', b' ', 0u8, 0xff, b'T', b'1'])).collect(),
                };
                if len >= 2 && kind != 0 {
                    match rng.below(5) {
                        0 => s[..2].copy_from_slice(b"T1"),
                        1 => s[..2].copy_from_slice(b"t1"),
                        2 => s[..2].copy_from_slice(b"T2"),
                        3 => s[..2].copy_from_slice(b"T\0"),
                        _ => {}
                    }
                }
                for mode in 0..3u8 {
                    parse_check::<V>(&s, mode, rep);
                }
                rep.count("c05:lengths_enumerated", 1);
                rep.distinct(fingerprint(&s) ^ V::INDEX as u64);
            }
        }
    }
    // (c) byte soups and near-valid strings
    let n = ctx.n(40_000, 4_000_000);
    for i in 0..n {
        let mut rng = ctx.rng("c05-soup", (V::INDEX as u64) << 48 | i);
        let s: Vec<u8> = match rng.below(7) {
            0 => {
                let len = *rng.pick(&[V::LEN_STR, V::LEN_STR - 2, V::LEN_STR - 1, V::LEN_STR + 1, V::LEN_STR - 3]);
                rng.bytes(len)
            }
            1 | 2 => {
                // valid string with k corruptions
                let sv = rng.chance(1, 2);
                let b = gen::hash_bytes(&mut rng, V::SIZE, V::CK, V::NB, sv);
                let mut s = random_case_text::<V>(&mut rng, &b);
                for _ in 0..rng.below(3) {
                    let p = rng.below(s.len() as u64) as usize;
                    s[p] = match rng.below(3) {
                        0 => rng.next_u8(),
                        1 => *rng.pick(&[b'G', b'g', b'@', b'`', b'/', b':', b'T', b'1', b't']),
                        _ => s[p] ^ (1 << rng.below(8)),
                    };
                }
                s
            }
            3 => {
                // right digits, wrong prefix or missing/extra characters
                let b = gen::hash_bytes(&mut rng, V::SIZE, V::CK, V::NB, true);
                let mut s = oracle::encode_text(&b, V::CK, true);
                match rng.below(5) {
                    0 => s[0] = b't',
                    1 => s[1] = b'2',
                    2 => {
                        s.pop();
                    }
                    3 => s.push(b'0'),
                    _ => {
                        s.remove(0);
                    }
                }
                s
            }
            4 => {
                rep.count("c05:utf8_multibyte_strings", 1);
                super::c12::non_ascii_string::<V>(&mut rng).into_bytes()
            }
            5 => {
                rep.count("c05:decorated_strings", 1);
                super::c12::decorated_string::<V>(&mut rng).into_bytes()
            }
            _ => {
                let b = gen::hash_bytes(&mut rng, V::SIZE, V::CK, V::NB, false);
                random_case_text::<V>(&mut rng, &b)
            }
        };
        for mode in 0..3u8 {
            parse_check::<V>(&s, mode, rep);
        }
        rep.distinct(fingerprint(&s) ^ (V::INDEX as u64) << 56);
        if rep.want_sample() && i == 2 {
            rep.sample(
                Json::obj()
                    .with("variant", V::NAME)
                    .with("text", String::from_utf8_lossy(&s).into_owned())
                    .with(
                        "model",
                        match oracle::decode_text(&s, V::SIZE, V::CK, V::NB, 0, strict()) {
                            Ok(v) => format!("Ok({})", crate::json::hex(&v)),
                            Err(e) => format!("{:?}", e),
                        },
                    ),
            );
        }
    }
}

pub fn run_c05(ctx: &Ctx, rep: &mut Report) {
    rep.rule = "byte strings for all five variants x 3 prefix modes x 3 parse entry points: every position of accepted strings (with and without prefix, mixed case) substituted with all 256 byte values; all 256 x 256 two-byte combinations at every header digit pair and at body pairs (every pair for the 48-bucket variant); every length 0..=2*LEN+2 with random / hex / look-alike content and T1,t1,T2 prefixes; seeded byte soups and near-valid strings; acceptance, value and error kind compared with the codec model (set of applicable errors; wrong length => length error); panics are violations; accepted spellings decorated with line terminators, blanks, NUL, quotes, BOM, sign, radix / doubled prefix, separators; distinct by construction (enumerated) or fingerprint".into();
    all_variants!(c05_variant, ctx, rep);
    rep.floor("parse:accepted", 100);
    rep.floor("parse:err:InvalidStringLength", 100);
    rep.floor("parse:err:InvalidCharacter", 100);
    rep.floor("parse:err:InvalidPrefix", 10);
    if strict() {
        rep.floor("parse:err:InvalidChecksum", 10);
        rep.floor("parse:err:LengthIsTooLarge", 10);
    }
    rep.floor("c05:positions_enumerated", 1);
    if ctx.scale >= 1.0 {
        rep.floor("c05:pairs_enumerated", 1);
    }
    rep.floor("c05:utf8_multibyte_strings", 20);
    rep.floor("c05:decorated_strings", 20);
}

// ---------------------------------------------------------------------------
// C06 / C15 binary side

pub fn bytes_check<V: Variant>(b: &[u8], rep: &mut Report) {
    let case = || Json::obj().with("variant", V::NAME).with("bytes", Json::hex(b));
    let exp = oracle::decode_bytes(b, V::SIZE, V::CK, V::NB, strict());
    let r = guard(|| {
        let s = V::from_slice(b);
        let a = if b.len() == V::SIZE { Some(V::from_array(b)) } else { None };
        (s, a)
    });
    let (s, a) = match r {
        Err(p) => {
            rep.violation(&format!("bytes|{}|panic", V::NAME), &format!("panic converting {} bytes: {} at {}", b.len(), p.message, p.location), case());
            return;
        }
        Ok(x) => x,
    };
    let mut entries = vec![("TryFrom<&[u8]>", s)];
    if let Some(a) = a {
        entries.push(("TryFrom<&[u8; N]>", a));
    }
    for (entry, got) in entries {
        rep.eval(1);
        match (&got, &exp) {
            (Ok(h), Ok(_)) => {
                rep.count("bytes:accepted", 1);
                layout_check::<V>(h, b, entry, rep);
            }
            (Ok(_), Err(es)) => rep.violation(
                &format!("bytes|{}|accepts-invalid|{}", V::NAME, es[0].name()),
                &format!("{} accepts {} bytes although {:?} applies", entry, b.len(), es.iter().map(|e| e.name()).collect::<Vec<_>>()),
                case(),
            ),
            (Err(e), Ok(_)) => rep.violation(
                &format!("bytes|{}|rejects-valid|{}", V::NAME, parse_err_name(e)),
                &format!("{} rejects a {}-byte array with {}", entry, b.len(), parse_err_name(e)),
                case(),
            ),
            (Err(e), Err(es)) => {
                rep.count(&format!("bytes:err:{}", parse_err_name(e)), 1);
                if !perr(e).map(|p| es.contains(&p)).unwrap_or(false) {
                    rep.violation(
                        &format!("bytes|{}|wrong-error|got={}|applicable={}", V::NAME, parse_err_name(e), es.iter().map(|e| e.name()).collect::<Vec<_>>().join("+")),
                        &format!("{} on {} bytes: error {} but applicable are {:?}", entry, b.len(), parse_err_name(e), es.iter().map(|e| e.name()).collect::<Vec<_>>()),
                        case(),
                    );
                }
            }
        }
    }
}

/// `h` was built from the right-sized array `b`: storage, accessors, hex and clear_checksum.
fn layout_check<V: Variant>(h: &V::H, b: &[u8], entry: &str, rep: &mut Report) {
    let case = || Json::obj().with("variant", V::NAME).with("bytes", Json::hex(b));
    let r = guard(|| {
        let mut problems: Vec<(String, String)> = Vec::new();
        let stored = bytes_of::<V>(h);
        if stored != b {
            problems.push(("store-roundtrip".into(), format!("{}: store_into_bytes gives {} for input {}", entry, crate::json::hex(&stored), crate::json::hex(b))));
        }
        match V::from_slice(&stored) {
            Ok(h2) if h2 == *h => {}
            _ => problems.push(("value-roundtrip".into(), "try_from(store(h)) != h".into())),
        }
        let p = V::parts(h);
        let ck = V::CK;
        if p.cs != b[..ck] {
            problems.push(("accessor-checksum".into(), format!("checksum().data() = {} vs bytes {}", crate::json::hex(&p.cs), crate::json::hex(&b[..ck]))));
        }
        if p.lv != b[ck] {
            problems.push(("accessor-length".into(), format!("length().value() = {} vs byte {}", p.lv, b[ck])));
        }
        if p.q != b[ck + 1] || h.qratios().q1ratio() != b[ck + 1] & 15 || h.qratios().q2ratio() != b[ck + 1] >> 4 {
            problems.push(("accessor-qratios".into(), format!("qratios value {} q1 {} q2 {} vs byte {:#04x}", p.q, h.qratios().q1ratio(), h.qratios().q2ratio(), b[ck + 1])));
        }
        if p.body != b[ck + 2..] {
            problems.push(("accessor-body".into(), "body().data() differs from the body bytes".into()));
        }
        let body = &b[ck + 2..];
        for i in 0..V::NB {
            let want = (body[body.len() - 1 - i / 4] >> (2 * (i % 4))) & 3;
            let got = V::quartile(h, i);
            if got != want {
                problems.push(("quartile".into(), format!("quartile({}) = {} vs dibit {}", i, got, want)));
                break;
            }
        }
        if h.length().is_valid() != (b[ck] < 170) {
            problems.push(("length-is_valid".into(), format!("length().is_valid() for code {}", b[ck])));
        }
        if V::checksum_valid(h) != (V::NB != 48 || b[0] <= 48) {
            problems.push(("checksum-is_valid".into(), format!("checksum().is_valid() for {}", b[0])));
        }
        // hex form = these bytes with header bytes nibble-swapped
        let text = text_of::<V>(h, true).unwrap_or_default();
        if text != oracle::encode_text(b, ck, true) {
            problems.push(("hex-vs-binary".into(), format!("hex form {:?} is not the nibble-swapped header + body of {}", String::from_utf8_lossy(&text), crate::json::hex(b))));
        }
        // clear_checksum zeroes the checksum bytes and nothing else
        let mut c = *h;
        c.clear_checksum();
        let cb = bytes_of::<V>(&c);
        let mut want = b.to_vec();
        for x in want[..ck].iter_mut() {
            *x = 0;
        }
        if cb != want {
            problems.push(("clear_checksum".into(), format!("clear_checksum gives {} expected {}", crate::json::hex(&cb), crate::json::hex(&want))));
        }
        problems
    });
    rep.eval(8 + V::NB as u64);
    match r {
        Err(p) => rep.violation(&format!("layout|{}|panic", V::NAME), &format!("panic: {} at {}", p.message, p.location), case()),
        Ok(problems) => {
            for (k, w) in problems {
                rep.violation(&format!("layout|{}|{}", V::NAME, k), &w, case());
            }
        }
    }
}

fn c06_variant<V: Variant>(ctx: &Ctx, rep: &mut Report) {
    let n = ctx.n(60_000, 3_000_000);
    for i in 0..n {
        let mut rng = ctx.rng("c06", (V::INDEX as u64) << 48 | i);
        let b = gen::hash_bytes(&mut rng, V::SIZE, V::CK, V::NB, false);
        bytes_check::<V>(&b, rep);
        if i % 8 == 0 {
            // the binary form written into a caller's buffer that is not exactly SIZE long
            // (a reused scratch buffer, a slot in a larger record): same bytes, same length
            let extra = *rng.pick(&[1usize, 2, 3, 29, 64, 200]);
            let len = if rng.chance(1, 8) { rng.below(V::SIZE as u64) as usize } else { V::SIZE + extra };
            c14_check::<V>(&b, 0, len, rng.below(5) as u8, rep);
            rep.count("c06:store_into_other_sized_buffers", 1);
        }
        let mut fp = b.clone();
        fp.push(V::INDEX as u8);
        rep.distinct(fingerprint(&fp));
        if rep.want_sample() && i == 9 {
            rep.sample(Json::obj().with("variant", V::NAME).with("bytes", Json::hex(&b)));
        }
    }
    // every position x all 256 values
    let mut rng = ctx.rng("c06-pos", V::INDEX as u64);
    let base = gen::hash_bytes(&mut rng, V::SIZE, V::CK, V::NB, true);
    let (lo, hi) = ctx.slice(V::SIZE as u64);
    let xstep = if ctx.scale < 1.0 { 51 } else { 1 };
    for p in lo..hi {
        for x in (0..=255u8).step_by(xstep) {
            let mut b = base.clone();
            b[p as usize] = x;
            bytes_check::<V>(&b, rep);
            rep.count("distinct_by_construction", 1);
        }
    }
    // slices of every length 0..=2N
    if ctx.shard == (V::INDEX as u64) % ctx.nshards {
        for len in (0..=2 * V::SIZE).step_by(if ctx.scale < 1.0 { 7 } else { 1 }) {
            let b = rng.bytes(len);
            bytes_check::<V>(&b, rep);
            rep.count("c06:lengths_enumerated", 1);
        }
        // out-of-range bucket index: the documented panic (recorded, not a violation)
        let h = V::from_array(&base).ok();
        if let Some(h) = h {
            for idx in [V::NB, V::NB + 1, usize::MAX] {
                match guard(|| V::quartile(&h, idx)) {
                    Err(_) => rep.count("c06:quartile_out_of_range_panics", 1),
                    Ok(v) => rep.violation(
                        &format!("layout|{}|quartile-out-of-range", V::NAME),
                        &format!("quartile({}) returned {} instead of the documented panic", idx, v),
                        Json::obj().with("variant", V::NAME).with("bytes", Json::hex(&base)),
                    ),
                }
            }
        }
    }
}

pub fn run_c06(ctx: &Ctx, rep: &mut Report) {
    rep.rule = "seeded byte arrays of all five variants (any pattern) plus all 256 values at every byte position and slices of every length 0..=2N, through TryFrom<&[u8]> and TryFrom<&[u8;N]>: acceptance vs the model, store_into_bytes round trip, every accessor (checksum, length, Q ratios, body, quartile(i) for all i), hex form = nibble-swapped header + body, clear_checksum; one value in eight stored with store_into_bytes into a longer (+1..+200) or shorter buffer, judged by the C14 buffer oracle; distinct by fingerprint of (variant, bytes)".into();
    all_variants!(c06_variant, ctx, rep);
    rep.floor("bytes:accepted", 100);
    rep.floor("bytes:err:InvalidStringLength", 10);
    rep.floor("c06:lengths_enumerated", 1);
}

// ---------------------------------------------------------------------------
// C14

pub fn c14_check<V: Variant>(b: &[u8], form: u8, len: usize, canary: u8, rep: &mut Report) {
    const GUARD: usize = 64;
    let case = || {
        Json::obj()
            .with("variant", V::NAME)
            .with("hash_bytes", Json::hex(b))
            .with("form", form)
            .with("buffer_len", len)
            .with("canary", canary)
    };
    let h = match V::from_array(b) {
        Ok(h) => h,
        Err(_) => {
            rep.count("not_constructible", 1);
            return;
        }
    };
    let (need, model) = match form {
        0 => (V::SIZE, b.to_vec()),
        1 => (V::LEN_STR - 2, oracle::encode_text(b, V::CK, false)),
        _ => (V::LEN_STR, oracle::encode_text(b, V::CK, true)),
    };
    let mut big = vec![0u8; len + 2 * GUARD];
    let mut rng = Rng::new(fingerprint(b) ^ (len as u64) << 8 ^ canary as u64);
    match canary {
        0 => {}
        1 => big.iter_mut().for_each(|x| *x = 0xa5),
        3 => {
            // text already in the buffer: lower-case letters and digits (a case fold or a
            // re-encode that runs past the representation changes them), also what a previous,
            // longer representation would have left behind
            const T: &[u8] = b"the quick brown fox jumps over the lazy dog 0123456789abcdef";
            let o = rng.below(T.len() as u64) as usize;
            big.iter_mut().enumerate().for_each(|(i, x)| *x = T[(i + o) % T.len()]);
        }
        4 => big.iter_mut().for_each(|x| *x = 0xff),
        _ => rng.fill(&mut big),
    }
    let before = big.clone();
    let r = guard(|| {
        let buf = &mut big[GUARD..GUARD + len];
        match form {
            0 => h.store_into_bytes(buf),
            1 => h.store_into_str_bytes(buf, HexStringPrefix::Empty),
            _ => h.store_into_str_bytes(buf, HexStringPrefix::WithVersion),
        }
    });
    rep.eval(1);
    let got = match r {
        Err(p) => {
            rep.violation(&format!("buffer|{}|form{}|panic", V::NAME, form), &format!("panic with a {}-byte buffer: {} at {}", len, p.message, p.location), case());
            return;
        }
        Ok(g) => g,
    };
    let mut problems: Vec<(&str, String)> = Vec::new();
    if big[..GUARD] != before[..GUARD] || big[GUARD + len..] != before[GUARD + len..] {
        problems.push(("outside-slice", "bytes outside the caller's slice were modified".into()));
    }
    if len < need {
        rep.count("buffer:too_small", 1);
        match got {
            Err(OperationError::BufferIsTooSmall) => {}
            other => problems.push(("gate", format!("buffer of {} < {} bytes: result {:?}", len, need, other.map_err(|_| "other error")))),
        }
        if big[GUARD..GUARD + len] != before[GUARD..GUARD + len] {
            // not demanded by the property (only "fails with the error"), recorded as coverage
            rep.count("buffer:modified_on_error", 1);
        }
    } else {
        rep.count("buffer:sufficient", 1);
        match got {
            Ok(n) if n == need => {}
            other => problems.push(("gate", format!("buffer of {} >= {} bytes: result {:?}", len, need, other.map_err(|_| "error")))),
        }
        if big[GUARD..GUARD + need] != model[..] {
            problems.push(("content", format!("written {:?}, expected {:?}", String::from_utf8_lossy(&big[GUARD..GUARD + need]), String::from_utf8_lossy(&model))));
        }
        if big[GUARD + need..GUARD + len] != before[GUARD + need..GUARD + len] {
            problems.push(("beyond-size", format!("bytes beyond the first {} of a {}-byte buffer were modified", need, len)));
        }
    }
    for (kind, what) in problems {
        rep.violation(&format!("buffer|{}|form{}|{}", V::NAME, form, kind), &what, case());
    }
}

fn c14_variant<V: Variant>(ctx: &Ctx, rep: &mut Report) {
    let values = ctx.n(160, 8_000);
    let extra = if ctx.thorough() { 4096 } else { 64 };
    for i in 0..values {
        let mut rng = ctx.rng("c14", (V::INDEX as u64) << 48 | i);
        let b = gen::hash_bytes(&mut rng, V::SIZE, V::CK, V::NB, strict());
        for form in 0..3u8 {
            let need = [V::SIZE, V::LEN_STR - 2, V::LEN_STR][form as usize];
            // all L in 0..=need+64 for the first values of a shard, a seeded subset afterwards
            let dense = i < 4 && ctx.scale >= 1.0;
            let max_len = need + if dense { extra.min(256) } else { extra };
            let mut len = 0usize;
            while len <= max_len {
                c14_check::<V>(&b, form, len, (rng.below(5)) as u8, rep);
                let window = if ctx.scale < 1.0 { 5 } else { 70 };
                len += if dense || len + window >= need && len <= need + window { 1 } else { 1 + rng.below(97) as usize };
            }
        }
        let mut fp = b.clone();
        fp.push(V::INDEX as u8);
        rep.distinct(fingerprint(&fp));
        if rep.want_sample() && i == 1 {
            rep.sample(Json::obj().with("variant", V::NAME).with("hash_bytes", Json::hex(&b)).with("buffer_lengths", format!("0..={}", V::LEN_STR + extra)));
        }
    }
}

pub fn run_c14(ctx: &Ctx, rep: &mut Report) {
    rep.rule = "seeded hash values of all five variants x 3 forms (binary, hex, hex+prefix) x buffer lengths 0..=N+64 (dense around N; N+4096 in the thorough tier) x 3 prior contents; the buffer is an inner slice of a larger allocation with guard bytes on both sides; result, written prefix (vs the codec model), untouched remainder and guards are checked; buffers pre-filled with zero / 0xA5 / random / running lower-case text / 0xFF; distinct by fingerprint of (variant, value)".into();
    all_variants!(c14_variant, ctx, rep);
    rep.floor("buffer:too_small", 100);
    rep.floor("buffer:sufficient", 100);
}

// ---------------------------------------------------------------------------
// C15: the two gates, exhaustively

fn c15_gates<V: Variant>(ctx: &Ctx, rep: &mut Report) {
    let mut rng = ctx.rng("c15", V::INDEX as u64);
    let base = gen::hash_bytes(&mut rng, V::SIZE, V::CK, V::NB, true);
    let (lo, hi) = ctx.slice(256);
    for lv in lo..hi {
        // 48-bucket variant: all 256 checksum values; others: a few checksum values (no gate)
        let cks: Vec<u8> = if V::NB == 48 { (0..=255u8).collect() } else { vec![0, 48, 49, 255] };
        for c in cks {
            let mut b = base.clone();
            b[0] = c;
            b[V::CK] = lv as u8;
            bytes_check::<V>(&b, rep);
            for with_prefix in [false, true] {
                let s = oracle::encode_text(&b, V::CK, with_prefix);
                for mode in 0..3u8 {
                    parse_check::<V>(&s, mode, rep);
                }
            }
            rep.count("distinct_by_construction", 1);
            rep.count("c15:gate_cells", 1);
        }
    }
}

pub fn run_c15_gates(ctx: &Ctx, rep: &mut Report) {
    rep.rule = "the two strict gates exhaustively: all 256 length codes x all 256 checksum bytes on the 48-bucket variant (x boundary checksum values on the others), as text (with and without prefix, 3 prefix modes, 3 entry points) and as bytes (slice and array), against the codec model with the gates (in non-strict builds the same cells must all be accepted)".into();
    rep.exhaustive = Some(true);
    all_variants!(c15_gates, ctx, rep);
    rep.sample(Json::obj().with("cell", "Short length=0xaa checksum=0x31").with("strict_build", strict()));
    rep.floor("c15:gate_cells", 1);
    if strict() {
        rep.floor("parse:err:InvalidChecksum", 1);
        rep.floor("parse:err:LengthIsTooLarge", 1);
        rep.floor("bytes:err:InvalidChecksum", 1);
        rep.floor("bytes:err:LengthIsTooLarge", 1);
    }
}

/// Every hash the generator produces is strict-valid and survives text and binary round trips.
fn c15_generated_one<V: Variant>(data: &[u8], rep: &mut Report) {
    use tlsh::GeneratorType;
    let case = || Json::obj().with("variant", V::NAME).with("data", Json::hex(data));
    let r = guard(|| {
        let mut g = V::new_gen();
        g.update(data);
        let mut problems: Vec<(String, String)> = Vec::new();
        let mut oks = 0u64;
        for o in 0..32u8 {
            if let Ok(h) = g.finalize_with_options(&crate::variant::options(crate::oracle::Opts(o))) {
                oks += 1;
                if !V::checksum_valid(&h) {
                    problems.push(("generated-checksum-invalid".into(), format!("generated hash {} has an invalid checksum", h)));
                }
                if !h.length().is_valid() {
                    problems.push(("generated-length-invalid".into(), format!("generated hash {} has an invalid length code", h)));
                }
                // round trips (with the strict parser when built so)
                let t = h.to_string();
                match V::H::from_str(&t) {
                    Ok(h2) if h2 == h => {}
                    _ => problems.push(("generated-text-roundtrip".into(), format!("generated hash {} does not survive the text round trip", t))),
                }
                let bb = bytes_of::<V>(&h);
                match V::from_slice(&bb) {
                    Ok(h2) if h2 == h => {}
                    _ => problems.push(("generated-binary-roundtrip".into(), format!("generated hash {} does not survive the binary round trip", t))),
                }
                let p = V::parts(&h);
                if V::NB == 48 && p.cs[0] > 48 || p.lv >= 170 {
                    problems.push(("generated-out-of-range".into(), format!("generated hash {} carries checksum {} / length code {}", t, p.cs[0], p.lv)));
                }
            }
        }
        (problems, oks)
    });
    match r {
        Err(p) => rep.violation(&format!("c15|{}|panic", V::NAME), &format!("panic: {} at {}", p.message, p.location), case()),
        Ok((problems, oks)) => {
            rep.eval(oks * 4);
            rep.count("c15:generated_hashes", oks);
            for (k, w) in problems {
                rep.violation(&format!("c15|{}|{}", V::NAME, k), &w, case());
            }
        }
    }
}

pub fn run_c15_generated(ctx: &Ctx, rep: &mut Report) {
    rep.rule = "every hash produced by the generator on seeded inputs (C01 corpus) under all 32 option settings, all five variants: checksum().is_valid(), length().is_valid(), field ranges, and text + binary round trip through this build's parser (the strict one in strict-parser builds); also injected states with 48-bucket checksum bytes forced to every value the folded table can produce; distinct by fingerprint of the input".into();
    let n = ctx.n(30_000, 1_000_000);
    let mut prev: Option<Vec<u8>> = None;
    for i in 0..n {
        let mut rng = ctx.rng("c15-gen", i);
        let (data, _) = gen::input(&mut rng, false, prev.as_deref());
        all_variants!(c15_generated_one, &data, rep);
        rep.distinct(fingerprint(&data));
        if rep.want_sample() && data.len() > 50 && data.len() < 120 {
            rep.sample(Json::obj().with("data", Json::hex(&data)));
        }
        prev = Some(data);
    }
    rep.floor("c15:generated_hashes", 100);
}

// ---------------------------------------------------------------------------

fn replay_variant<V: Variant>(name: &str, case: &Json, rep: &mut Report) {
    if name != V::NAME {
        return;
    }
    if let Some(b) = case.get_hex("hash_bytes") {
        if b.len() == V::SIZE {
            if let (Some(form), Some(len)) = (case.get("form").and_then(|x| x.as_u64()), case.get("buffer_len").and_then(|x| x.as_u64())) {
                c14_check::<V>(&b, form as u8, len as usize, case.get("canary").and_then(|x| x.as_u64()).unwrap_or(0) as u8, rep);
            } else {
                c04_value::<V>(&b, rep);
            }
        }
    }
    if let Some(s) = case.get_hex("text") {
        if let Some(mode) = case.get("mode").and_then(|x| x.as_u64()) {
            parse_check::<V>(&s, mode as u8, rep);
        } else {
            c04_accepted::<V>(&s, rep);
        }
    }
    if let Some(b) = case.get_hex("bytes") {
        bytes_check::<V>(&b, rep);
    }
    if let Some(d) = case.get_hex("data") {
        c15_generated_one::<V>(&d, rep);
    }
}

pub fn replay(case: &Json, rep: &mut Report) -> bool {
    let v = match case.get("variant").and_then(|v| v.as_str()) {
        Some(v) => v,
        None => return false,
    };
    all_variants!(replay_variant, v, case, rep);
    true
}
