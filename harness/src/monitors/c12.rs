//! C12 — stream and file helpers hash exactly the bytes the reader delivered;
//! C13 — string comparison helpers equal parse-then-compare.

use crate::gen;
use crate::json::Json;
use crate::oracle;
use crate::report::{guard, Report};
use crate::rng::{fingerprint, Rng};
use crate::variant::{gen_err_name, parse_err_name, Variant};
use crate::{all_variants, Ctx};
use std::io::{self, ErrorKind, Read};
use std::str::FromStr;
use tlsh::{FuzzyHashType, GeneratorOrIOError, ParseErrorSide};

#[derive(Clone, Debug, PartialEq)]
pub enum Ev {
    Deliver(usize),
    Fill,
    Interrupted,
    Hard(u8),
    Eof,
}

pub const HARD_KINDS: [ErrorKind; 19] = [
    ErrorKind::Other,
    ErrorKind::UnexpectedEof,
    ErrorKind::PermissionDenied,
    ErrorKind::BrokenPipe,
    ErrorKind::TimedOut,
    ErrorKind::InvalidData,
    ErrorKind::WouldBlock,
    ErrorKind::NotFound,
    ErrorKind::ConnectionRefused,
    ErrorKind::ConnectionReset,
    ErrorKind::ConnectionAborted,
    ErrorKind::NotConnected,
    ErrorKind::AddrInUse,
    ErrorKind::AddrNotAvailable,
    ErrorKind::AlreadyExists,
    ErrorKind::InvalidInput,
    ErrorKind::WriteZero,
    ErrorKind::Unsupported,
    ErrorKind::OutOfMemory,
];

pub fn script_to_json(s: &[Ev]) -> Json {
    Json::Arr(
        s.iter()
            .map(|e| match e {
                Ev::Deliver(k) => Json::obj().with("deliver", *k),
                Ev::Fill => Json::s("fill"),
                Ev::Interrupted => Json::s("interrupted"),
                Ev::Hard(k) => Json::obj().with("hard", *k),
                Ev::Eof => Json::s("eof"),
            })
            .collect(),
    )
}

pub fn script_from_json(j: &Json) -> Option<Vec<Ev>> {
    let mut v = Vec::new();
    for e in j.as_arr()? {
        v.push(match e {
            Json::Str(s) if s == "fill" => Ev::Fill,
            Json::Str(s) if s == "interrupted" => Ev::Interrupted,
            Json::Str(s) if s == "eof" => Ev::Eof,
            o => {
                if let Some(k) = o.get("deliver") {
                    Ev::Deliver(k.as_u64()? as usize)
                } else {
                    Ev::Hard(o.get("hard")?.as_u64()? as u8)
                }
            }
        });
    }
    Some(v)
}

/// A reader following a script; after the script it fills the buffer until the data ends.
pub struct Scripted<'a> {
    pub data: &'a [u8],
    pub pos: usize,
    pub script: &'a [Ev],
    pub idx: usize,
    pub reads: u64,
    pub max_buf: usize,
    pub min_buf: usize,
    pub ended: bool,
    pub interruptions: u64,
    pub first_hard: Option<ErrorKind>,
    pub reads_after_end: u64,
}

impl<'a> Scripted<'a> {
    pub fn new(data: &'a [u8], script: &'a [Ev]) -> Self {
        Scripted {
            data,
            pos: 0,
            script,
            idx: 0,
            reads: 0,
            max_buf: 0,
            min_buf: usize::MAX,
            ended: false,
            interruptions: 0,
            first_hard: None,
            reads_after_end: 0,
        }
    }
}

impl<'a> Read for Scripted<'a> {
    fn read(&mut self, buf: &mut [u8]) -> io::Result<usize> {
        self.reads += 1;
        self.max_buf = self.max_buf.max(buf.len());
        self.min_buf = self.min_buf.min(buf.len());
        if self.ended || self.first_hard.is_some() {
            self.reads_after_end += 1;
        }
        if self.ended {
            return Ok(0);
        }
        let ev = if self.idx < self.script.len() {
            let e = self.script[self.idx].clone();
            self.idx += 1;
            e
        } else {
            Ev::Fill
        };
        let remaining = self.data.len() - self.pos;
        let mut deliver = |me: &mut Self, k: usize| {
            let n = k.min(buf.len()).min(remaining);
            if n == 0 {
                me.ended = true;
                return Ok(0);
            }
            buf[..n].copy_from_slice(&me.data[me.pos..me.pos + n]);
            me.pos += n;
            Ok(n)
        };
        match ev {
            Ev::Deliver(k) => deliver(self, k.max(1)),
            Ev::Fill => deliver(self, usize::MAX),
            Ev::Interrupted => {
                self.interruptions += 1;
                Err(io::Error::new(ErrorKind::Interrupted, "scripted interruption"))
            }
            Ev::Hard(k) => {
                let kind = HARD_KINDS[k as usize % HARD_KINDS.len()];
                if self.first_hard.is_none() {
                    self.first_hard = Some(kind);
                }
                Err(io::Error::new(kind, "scripted hard error"))
            }
            Ev::Eof => {
                self.ended = true;
                Ok(0)
            }
        }
    }
}

pub fn stream_check<V: Variant>(data: &[u8], script: &[Ev], rep: &mut Report) {
    let case = || {
        Json::obj()
            .with("variant", V::NAME)
            .with("data", if data.len() <= 65536 { Json::hex(data) } else { Json::Null })
            .with("data_len", data.len())
            .with("data_seed_fp", fingerprint(data))
            .with("script", script_to_json(script))
    };
    let mut reader = Scripted::new(data, script);
    let r = guard(|| V::hash_stream(&mut reader));
    rep.eval(1);
    let got = match r {
        Err(p) => {
            rep.violation(&format!("stream|{}|panic", V::NAME), &format!("panic: {} at {}", p.message, p.location), case());
            return;
        }
        Ok(g) => g,
    };
    rep.count("stream:reads", reader.reads);
    rep.max("stream:max_reads_in_one_stream", reader.reads);
    if reader.reads > 1 {
        rep.count("stream:multi_read", 1);
    }
    if reader.interruptions > 0 {
        rep.count("stream:with_interruptions", 1);
    }
    if reader.interruptions > 1024 {
        rep.count("stream:with_more_than_1024_interruptions", 1);
    }
    rep.max("stream:max_interruptions_in_one_stream", reader.interruptions);
    if reader.pos > 1 << 20 {
        rep.count("stream:larger_than_buffer", 1);
    }
    let delivered = &data[..reader.pos];
    match reader.first_hard {
        Some(kind) => {
            rep.count("stream:hard_error", 1);
            rep.seen("hard-error-kinds", &format!("{:?}", kind));
            match &got {
                Err(GeneratorOrIOError::IOError(e)) if e.kind() == kind => {}
                other => rep.violation(
                    &format!("stream|{}|hard-error-lost", V::NAME),
                    &format!(
                        "reader failed with {:?} after {} bytes, helper returned {}",
                        kind,
                        reader.pos,
                        match other {
                            Ok(h) => format!("Ok({})", h),
                            Err(GeneratorOrIOError::GeneratorError(e)) => gen_err_name(e).to_string(),
                            Err(GeneratorOrIOError::IOError(e)) => format!("IOError({:?})", e.kind()),
                        }
                    ),
                    case(),
                ),
            }
            if reader.reads_after_end > 0 {
                rep.count("stream:reads_after_hard_error", reader.reads_after_end);
            }
        }
        None => {
            let exp = V::hash_buf(delivered);
            let same = match (&got, &exp) {
                (Ok(a), Ok(b)) => a == b,
                (Err(GeneratorOrIOError::GeneratorError(a)), Err(b)) => a == b,
                _ => false,
            };
            match &exp {
                Ok(_) => rep.count("stream:ok", 1),
                Err(e) => rep.count(&format!("stream:{}", gen_err_name(e)), 1),
            }
            if !same {
                let kind = match &got {
                    Err(GeneratorOrIOError::IOError(e)) if e.kind() == ErrorKind::Interrupted => "interrupted-not-retried",
                    Err(GeneratorOrIOError::IOError(_)) => "spurious-io-error",
                    _ => "differs-from-buffer-hash",
                };
                rep.violation(
                    &format!("stream|{}|{}", V::NAME, kind),
                    &format!(
                        "reader delivered {} bytes in {} reads ({} interruptions): helper returned {}, hash_buf of the delivered bytes is {}",
                        reader.pos,
                        reader.reads,
                        reader.interruptions,
                        match &got {
                            Ok(h) => format!("Ok({})", h),
                            Err(GeneratorOrIOError::GeneratorError(e)) => gen_err_name(e).to_string(),
                            Err(GeneratorOrIOError::IOError(e)) => format!("IOError({:?})", e.kind()),
                        },
                        match &exp {
                            Ok(h) => format!("Ok({})", h),
                            Err(e) => gen_err_name(e).to_string(),
                        }
                    ),
                    case(),
                );
            }
        }
    }
}

pub fn gen_script(rng: &mut Rng, total: usize) -> Vec<Ev> {
    let mut s = Vec::new();
    let style = rng.below(6);
    let n = match style {
        0 => 0,
        1 => rng.range(1, 6),
        _ => rng.range(1, 60),
    };
    for _ in 0..n {
        s.push(match rng.below(20) {
            0..=7 => Ev::Deliver(*rng.pick(&[1usize, 2, 3, 4, 5, 7, 64, 4096])),
            8..=10 => Ev::Deliver(rng.range(1, (total as u64).max(2)) as usize),
            11..=13 => Ev::Fill,
            14..=17 => Ev::Interrupted,
            18 => {
                if style >= 4 {
                    Ev::Hard(rng.below(HARD_KINDS.len() as u64) as u8)
                } else {
                    Ev::Interrupted
                }
            }
            _ => {
                if style == 5 {
                    Ev::Eof
                } else {
                    Ev::Fill
                }
            }
        });
    }
    // interruption storms: thousands of transient interruptions in one stream
    if rng.chance(1, if gen::small() { 40 } else { 12 }) {
        let storms = if gen::small() { rng.range(1030, 1100) } else { rng.range(1100, 4000) };
        let at = rng.below(s.len() as u64 + 1) as usize;
        let mut storm = Vec::with_capacity(storms as usize + 8);
        for k in 0..storms {
            storm.push(Ev::Interrupted);
            if k % 500 == 250 {
                storm.push(Ev::Deliver(1));
            }
        }
        s.splice(at..at, storm);
    }
    // interruption immediately before EOF / before the first read
    if rng.chance(1, 4) {
        s.insert(0, Ev::Interrupted);
    }
    if rng.chance(1, 4) {
        // deliver everything that is left, then interrupt before the EOF read
        for _ in 0..(total >> 20) + 2 {
            s.push(Ev::Fill);
        }
        s.push(Ev::Interrupted);
        if rng.chance(1, 2) {
            s.push(Ev::Interrupted);
        }
    }
    s
}

pub fn run_stream(ctx: &Ctx, rep: &mut Report) {
    rep.rule = "scripted readers over {deliver k bytes (1..5, random, fill), Interrupted, hard error of 19 kinds (every stable std::io::ErrorKind other than Interrupted), early EOF} on seeded data (0..64 KiB mostly; 1 MiB-1, 1 MiB, 1 MiB+1, 2.5 MiB in every run) for all five variants: without a hard error the result must equal hash_buf of the delivered bytes (as Ok or as the same generator error), with one it must be Err(IOError(kind)); files of 21 sizes (0..=5, around 10 / 50 / 128 / 256, 4 KiB, 1 MiB-1, 1 MiB, 1 MiB+1, 3 MiB), procfs files whose metadata reports length 0, and a missing path; interruption storms of 1100..4000 transient errors in one stream; non-trivial = more than one read or an injected event; distinct by fingerprint of (data, script)".into();
    let n = ctx.n(12_000, 500_000);
    for i in 0..n {
        let mut rng = ctx.rng("c12", i);
        let len = match (i, rng.below(40)) {
            (0, _) => (1 << 20) - 1,
            (1, _) => 1 << 20,
            (2, _) => (1 << 20) + 1,
            (3, _) => 5 << 19,
            (_, 0) if ctx.thorough() => rng.range(1 << 20, 3 << 20) as usize,
            _ => gen::byte_length(&mut rng, false).min(65536),
        };
        let len = if ctx.scale < 1.0 { len.min(3000) } else { len };
        let (data, _) = gen::content(&mut rng, len, None);
        let script = gen_script(&mut rng, len);
        match i % 5 {
            0 => stream_check::<crate::variant::VNormal>(&data, &script, rep),
            1 => stream_check::<crate::variant::VShort>(&data, &script, rep),
            2 => stream_check::<crate::variant::VNormal3>(&data, &script, rep),
            3 => stream_check::<crate::variant::VLong>(&data, &script, rep),
            _ => stream_check::<crate::variant::VLong3>(&data, &script, rep),
        }
        if i % 50 == 7 {
            // the default helper is the Normal one
            let mut r1 = Scripted::new(&data, &script);
            let mut r2 = Scripted::new(&data, &script);
            let a = guard(|| tlsh::hash_stream(&mut r1).map(|h| h.to_string()).map_err(|e| e.to_string()));
            let b = guard(|| crate::variant::VNormal::hash_stream(&mut r2).map(|h| h.to_string()).map_err(|e| e.to_string()));
            rep.eval(1);
            match (a, b) {
                (Ok(a), Ok(b)) if a == b => {}
                _ => rep.violation("stream|default-helper", "tlsh::hash_stream differs from hash_stream_for::<Normal>", Json::obj().with("variant", "Normal").with("data", Json::hex(&data)).with("script", script_to_json(&script))),
            }
        }
        if !script.is_empty() {
            let mut fp = data.clone();
            fp.extend_from_slice(script_to_json(&script).to_string().as_bytes());
            rep.distinct(fingerprint(&fp));
        }
        if rep.want_sample() && data.len() < 200 && script.len() > 2 && script.len() < 12 {
            rep.sample(Json::obj().with("data_len", data.len()).with("script", script_to_json(&script)));
        }
    }
    if ctx.shard == 0 {
        files(ctx, rep);
    }
    if ctx.scale >= 1.0 {
        rep.floor("stream:multi_read", 100);
        rep.floor("stream:with_interruptions", 100);
        rep.floor("stream:with_more_than_1024_interruptions", 5);
        rep.floor("stream:hard_error", 20);
        rep.set_floor("hard-error-kinds", HARD_KINDS.len() as u64);
        rep.floor("stream:ok", 100);
        rep.floor("stream:TooSmallInput", 1);
        rep.floor("stream:larger_than_buffer", 1);
    }
}

fn file_one<V: Variant>(path: &std::path::Path, content: &[u8], rep: &mut Report) {
    let r = guard(|| V::hash_file(path));
    let exp = V::hash_buf(content);
    rep.eval(1);
    rep.count("files_hashed", 1);
    let case = || Json::obj().with("variant", V::NAME).with("file_size", content.len());
    match r {
        Err(p) => rep.violation(&format!("file|{}|panic", V::NAME), &format!("panic: {} at {}", p.message, p.location), case()),
        Ok(got) => {
            let same = match (&got, &exp) {
                (Ok(a), Ok(b)) => a == b,
                (Err(GeneratorOrIOError::GeneratorError(a)), Err(b)) => a == b,
                _ => false,
            };
            if !same {
                rep.violation(&format!("file|{}|differs", V::NAME), &format!("hash_file of a {}-byte file differs from hash_buf of its contents", content.len()), case());
            }
        }
    }
}

fn missing_one<V: Variant>(path: &std::path::Path, rep: &mut Report) {
    rep.eval(1);
    match guard(|| V::hash_file(path)) {
        Ok(Err(GeneratorOrIOError::IOError(e))) if e.kind() == ErrorKind::NotFound => rep.count("missing_path_io_error", 1),
        other => rep.violation(
            &format!("file|{}|missing-path", V::NAME),
            &format!("hash_file of a missing path returned {:?}", other.map(|r| r.map(|h| h.to_string()).map_err(|e| e.to_string())).map_err(|p| p.message)),
            Json::obj().with("variant", V::NAME).with("missing_path", true),
        ),
    }
}

pub fn files(ctx: &Ctx, rep: &mut Report) {
    let dir = std::path::Path::new(&ctx.scratch);
    let _ = std::fs::create_dir_all(dir);
    let sizes: &[usize] = if ctx.scale < 1.0 {
        &[0, 10, 60, 700]
    } else {
        &[0, 1, 4, 5, 9, 10, 11, 49, 50, 51, 100, 127, 128, 255, 256, 257, 4096, (1 << 20) - 1, 1 << 20, (1 << 20) + 1, 3 << 20]
    };
    for (i, &sz) in sizes.iter().enumerate() {
        let mut rng = ctx.rng("c12-file", i as u64);
        let (content, _) = gen::content(&mut rng, sz, None);
        let path = dir.join(format!("c12-file-{}.bin", i));
        if std::fs::write(&path, &content).is_err() {
            rep.inconclusive("cannot write scratch file");
            return;
        }
        all_variants!(file_one, &path, &content, rep);
        let a = guard(|| tlsh::hash_file(&path).map(|h| h.to_string()).map_err(|e| e.to_string()));
        let b = guard(|| crate::variant::VNormal::hash_file(&path).map(|h| h.to_string()).map_err(|e| e.to_string()));
        match (a, b) {
            (Ok(a), Ok(b)) if a == b => {}
            _ => rep.violation("file|default-helper", "tlsh::hash_file differs from hash_file_for::<Normal>", Json::obj().with("variant", "Normal").with("file_size", sz)),
        }
        let _ = std::fs::remove_file(&path);
    }
    // files whose metadata under-reports their contents (procfs reports length 0); only files
    // whose contents do not change are used, and a case is judged only if the contents were the
    // same before and after the helper read them
    for special in ["/proc/version", "/proc/filesystems", "/proc/cmdline"] {
        let path = std::path::Path::new(special);
        if let Ok(before) = std::fs::read(path) {
            if before.is_empty() {
                continue;
            }
            let mut scratch = Report::new("scratch", "scratch");
            all_variants!(file_one, path, &before, &mut scratch);
            let after = std::fs::read(path).unwrap_or_default();
            if before == after {
                rep.eval(scratch.evaluations);
                rep.count("special_files_hashed", 1);
                rep.count("files_hashed", scratch.counters.get("files_hashed").copied().unwrap_or(0));
                for v in scratch.violations {
                    rep.violation(
                        v.get("signature").and_then(|s| s.as_str()).unwrap_or("file|special"),
                        v.get("what").and_then(|s| s.as_str()).unwrap_or(""),
                        v.get("case").cloned().unwrap_or(Json::Null),
                    );
                }
            } else {
                rep.count("special_files_changed_while_reading(skipped)", 1);
            }
        }
    }
    let missing = dir.join("c12-this-file-does-not-exist");
    all_variants!(missing_one, &missing, rep);
    rep.floor("files_hashed", 5);
    rep.floor("missing_path_io_error", 5);
}

// ---------------------------------------------------------------------------
// C13

#[derive(Clone, Copy, Debug, PartialEq)]
pub enum Kind {
    Valid,
    WrongLength,
    BadPrefix,
    BadChar,
    StrictChecksum,
    StrictLength,
}

pub const KINDS: [Kind; 6] = [Kind::Valid, Kind::WrongLength, Kind::BadPrefix, Kind::BadChar, Kind::StrictChecksum, Kind::StrictLength];

/// A valid-UTF-8 string with multi-byte characters whose *byte* length is one of the two
/// accepted lengths (or near them); always malformed, and hostile to byte-offset slicing.
pub fn non_ascii_string<V: Variant>(rng: &mut Rng) -> String {
    let b = gen::hash_bytes(rng, V::SIZE, V::CK, V::NB, true);
    let base = String::from_utf8(oracle::encode_text(&b, V::CK, rng.chance(2, 3))).unwrap();
    let target = *rng.pick(&[V::LEN_STR, V::LEN_STR, V::LEN_STR - 2, V::LEN_STR + 1, V::LEN_STR - 1]);
    let ch = *rng.pick(&['\u{e9}', '\u{20ac}', '\u{1f600}', '\u{df}', '\u{3a9}']);
    let at = match rng.below(4) {
        0 => 1,
        1 => 0,
        2 => 2,
        _ => rng.below(base.len() as u64) as usize,
    };
    let mut out = String::new();
    for (i, c) in base.chars().enumerate() {
        if i == at {
            out.push(ch);
        } else {
            out.push(c);
        }
    }
    // trim or pad (ASCII) to the target byte length where possible
    while out.len() > target {
        let c = out.pop().unwrap();
        if !c.is_ascii() {
            out.push('0');
            if out.len() > target {
                out.pop();
            }
            break;
        }
    }
    while out.len() < target {
        out.push('A');
    }
    out
}


/// An accepted spelling wrapped in what a lenient front end might strip: line terminators,
/// blanks, NUL, quotes, a BOM, a sign, a radix or doubled version prefix, separators. The crate's
/// parser takes the whole string, so none of these may be forgiven; what exactly the error is
/// (length, prefix or character) is left to the codec model.
pub fn decorated_string<V: Variant>(rng: &mut Rng) -> String {
    let b = gen::hash_bytes(rng, V::SIZE, V::CK, V::NB, true);
    let base = String::from_utf8(super::codec::random_case_text::<V>(rng, &b)).unwrap_or_default();
    const TAILS: &[&str] = &["\n", "\r\n", "\r", " ", "\t", "\0", "\n\n", "  ", ",", ";", "\u{a0}", "\u{2028}", "\u{c}", "\u{b}"];
    const HEADS: &[&str] = &[" ", "\n", "\t", "\u{feff}", "+", "0x", "T1", "\0", "\r\n", "  "];
    match rng.below(8) {
        0 | 1 | 2 => format!("{}{}", base, rng.pick(TAILS)),
        3 | 4 => format!("{}{}", rng.pick(HEADS), base),
        5 => format!("{}{}{}", rng.pick(HEADS), base, rng.pick(TAILS)),
        6 => format!("\"{}\"", base),
        _ => {
            // the decoration replaces the last / first characters, so the byte length stays accepted
            let t = *rng.pick(&["\n", "\r\n", " ", "\0", "\t"]);
            if rng.chance(1, 2) && base.len() > t.len() {
                format!("{}{}", &base[..base.len() - t.len()], t)
            } else if base.len() > t.len() {
                format!("{}{}", t, &base[t.len()..])
            } else {
                base
            }
        }
    }
}

pub fn gen_string<V: Variant>(rng: &mut Rng, kind: Kind) -> String {
    let strict = cfg!(feature = "strict");
    let mut b = gen::hash_bytes(rng, V::SIZE, V::CK, V::NB, true);
    match kind {
        Kind::StrictChecksum => {
            if V::NB == 48 {
                b[0] = rng.range(49, 255) as u8;
            }
        }
        Kind::StrictLength => b[V::CK] = rng.range(170, 255) as u8,
        _ => {}
    }
    let _ = strict;
    let mut s = super::codec::random_case_text::<V>(rng, &b);
    match kind {
        Kind::WrongLength => match rng.below(4) {
            0 => {
                s.pop();
            }
            1 => s.push(b'0'),
            2 => s.clear(),
            _ => {
                s.truncate(rng.below(s.len() as u64) as usize);
            }
        },
        Kind::BadPrefix => {
            s = oracle::encode_text(&b, V::CK, true);
            match rng.below(3) {
                0 => s[0] = b't',
                1 => s[1] = b'2',
                _ => {
                    s[0] = b'1';
                    s[1] = b'T';
                }
            }
        }
        Kind::BadChar => {
            let st = if s.len() == V::LEN_STR { 2 } else { 0 };
            let p = st + rng.below((s.len() - st) as u64) as usize;
            s[p] = *rng.pick(&[b'G', b'g', b'@', b'`', b'/', b':', b' ', b'-', b'_', b'x']);
        }
        _ => {}
    }
    String::from_utf8(s).unwrap_or_default()
}

pub fn compare_check<V: Variant>(l: &str, r: &str, rep: &mut Report) {
    let case = || Json::obj().with("variant", V::NAME).with("left", l).with("right", r);
    let res = guard(|| {
        let got = V::compare_with(l, r);
        let pl = V::H::from_str(l);
        let pr = V::H::from_str(r);
        let exp: Result<u32, (ParseErrorSide, tlsh::ParseError)> = match (pl, pr) {
            (Ok(a), Ok(b)) => Ok(a.compare(&b)),
            (Err(e), _) => Err((ParseErrorSide::Left, e)),
            (Ok(_), Err(e)) => Err((ParseErrorSide::Right, e)),
        };
        (got.map_err(|e| (e.side(), e.inner_err())), exp)
    });
    rep.eval(1);
    let (got, exp) = match res {
        Err(p) => {
            rep.violation(&format!("compare|{}|panic", V::NAME), &format!("panic: {} at {}", p.message, p.location), case());
            return;
        }
        Ok(x) => x,
    };
    let show = |x: &Result<u32, (ParseErrorSide, tlsh::ParseError)>| match x {
        Ok(d) => format!("Ok({})", d),
        Err((s, e)) => format!("Err({:?}, {})", s, parse_err_name(e)),
    };
    if got != exp {
        let kind = match (&got, &exp) {
            (Ok(_), Ok(_)) => "distance",
            (Err((a, _)), Err((b, _))) if a != b => "wrong-side",
            (Err(_), Err(_)) => "wrong-error",
            (Ok(_), Err(_)) => "accepts-unparsable",
            (Err(_), Ok(_)) => "rejects-parsable",
        };
        rep.violation(
            &format!("compare|{}|{}", V::NAME, kind),
            &format!("compare_with({:?}, {:?}) = {} but parse-then-compare gives {}", l, r, show(&got), show(&exp)),
            case(),
        );
    }
    // the models: decoded values and the reference distance
    let strict = cfg!(feature = "strict");
    let ml = oracle::decode_text(l.as_bytes(), V::SIZE, V::CK, V::NB, 0, strict);
    let mr = oracle::decode_text(r.as_bytes(), V::SIZE, V::CK, V::NB, 0, strict);
    match (&got, &ml, &mr) {
        (Ok(d), Ok(a), Ok(b)) => {
            rep.count("compare:both_valid", 1);
            if *d != oracle::distance(a, b, V::CK, false) {
                rep.violation(&format!("compare|{}|model-distance", V::NAME), &format!("distance {} vs reference {}", d, oracle::distance(a, b, V::CK, false)), case());
            }
        }
        (Err((ParseErrorSide::Left, e)), Err(es), _) => {
            rep.count(&format!("compare:left:{}", parse_err_name(e)), 1);
            if !super::codec::perr(e).map(|p| es.contains(&p)).unwrap_or(false) {
                rep.violation(&format!("compare|{}|model-error", V::NAME), &format!("left error {} is not applicable ({:?})", parse_err_name(e), es), case());
            }
        }
        (Err((ParseErrorSide::Right, e)), Ok(_), Err(es)) => {
            rep.count(&format!("compare:right:{}", parse_err_name(e)), 1);
            if !super::codec::perr(e).map(|p| es.contains(&p)).unwrap_or(false) {
                rep.violation(&format!("compare|{}|model-error", V::NAME), &format!("right error {} is not applicable ({:?})", parse_err_name(e), es), case());
            }
        }
        _ => rep.violation(
            &format!("compare|{}|model-disagrees", V::NAME),
            &format!("compare_with = {} but the codec model says left {:?}, right {:?}", show(&got), ml.as_ref().map(|_| "ok").map_err(|e| e.clone()), mr.as_ref().map(|_| "ok").map_err(|e| e.clone())),
            case(),
        ),
    }
    if V::INDEX == 1 {
        // tlsh::compare == compare_with::<Tlsh>
        let a = guard(|| tlsh::compare(l, r).map_err(|e| (e.side(), e.inner_err())));
        match a {
            Ok(a) if a == got => {}
            _ => rep.violation("compare|default-helper", "tlsh::compare differs from compare_with::<Tlsh>", case()),
        }
    }
}

fn c13_variant<V: Variant>(ctx: &Ctx, rep: &mut Report) {
    let n = ctx.n(60_000, 3_000_000);
    let strict = cfg!(feature = "strict");
    for i in 0..n {
        let mut rng = ctx.rng("c13", (V::INDEX as u64) << 48 | i);
        let nk = if strict { 6 } else { 4 };
        // cover the (left kind, right kind) grid evenly, valid x valid more often
        let (kl, kr) = if rng.chance(1, 3) {
            (Kind::Valid, Kind::Valid)
        } else {
            (KINDS[rng.below(nk) as usize], KINDS[rng.below(nk) as usize])
        };
        let mut l = gen_string::<V>(&mut rng, kl);
        if rng.chance(1, 16) {
            l = non_ascii_string::<V>(&mut rng);
            rep.count("compare:non_ascii_operands", 1);
        }
        if rng.chance(1, 16) {
            l = decorated_string::<V>(&mut rng);
            rep.count("compare:decorated_operands", 1);
        }
        let r = if rng.chance(1, 16) {
            rep.count("compare:non_ascii_operands", 1);
            non_ascii_string::<V>(&mut rng)
        } else if rng.chance(1, 12) {
            rep.count("compare:decorated_operands", 1);
            decorated_string::<V>(&mut rng)
        } else if kl == Kind::Valid && l.is_ascii() && rng.chance(1, 6) {
            // the very same digits as the left operand, re-spelled: other letter case, prefix
            // dropped / added / damaged ("t1", "T2", "1T")
            rep.count("compare:same_digits_respelled", 1);
            let digits: String = if l.len() == V::LEN_STR { l[2..].to_string() } else { l.clone() };
            let digits: String = match rng.below(3) {
                0 => digits.to_ascii_lowercase(),
                1 => digits.to_ascii_uppercase(),
                _ => digits,
            };
            let prefix = *rng.pick(&["T1", "", "t1", "T2", "1T", "T1", ""]);
            format!("{}{}", prefix, digits)
        } else if kl == Kind::Valid && kr == Kind::Valid && rng.chance(1, 4) {
            // the same hash spelled differently
            let a = oracle::decode_text(l.as_bytes(), V::SIZE, V::CK, V::NB, 0, false).unwrap_or_default();
            if a.len() == V::SIZE {
                String::from_utf8(super::codec::random_case_text::<V>(&mut rng, &a)).unwrap_or_default()
            } else {
                gen_string::<V>(&mut rng, kr)
            }
        } else {
            gen_string::<V>(&mut rng, kr)
        };
        rep.seen("kind-cells", &format!("{:?}x{:?}", kl, kr));
        compare_check::<V>(&l, &r, rep);
        let mut fp = l.clone().into_bytes();
        fp.push(0);
        fp.extend_from_slice(r.as_bytes());
        fp.push(V::INDEX as u8);
        rep.distinct(fingerprint(&fp));
        if rep.want_sample() && i == 4 {
            rep.sample(Json::obj().with("variant", V::NAME).with("left", l).with("right", r));
        }
    }
}

pub fn run_compare(ctx: &Ctx, rep: &mut Report) {
    rep.rule = "seeded pairs of strings per variant drawn from {accepted (random letter case, with / without prefix), wrong length, bad prefix, bad character; with the strict parser also invalid checksum, invalid length code} x the same: compare_with::<T> against parse-both-then-compare through the crate's own parser (side and error kind) and against the codec + distance models; tlsh::compare == compare_with::<Tlsh>; plus non-ASCII operands, re-spelled digits with damaged prefixes, and accepted spellings decorated with line terminators, blanks, NUL, quotes, BOM, sign, radix / doubled prefix, separators (around the string or replacing its first / last characters); distinct by fingerprint of (variant, left, right)".into();
    all_variants!(c13_variant, ctx, rep);
    let cells = if cfg!(feature = "strict") { 36 } else { 16 };
    if ctx.scale >= 1.0 {
        rep.set_floor("kind-cells", cells);
    }
    rep.floor("compare:both_valid", 100);
    rep.floor("compare:non_ascii_operands", 20);
    rep.floor("compare:decorated_operands", 20);
    rep.floor("compare:same_digits_respelled", 20);
}

fn replay_stream<V: Variant>(name: &str, data: &[u8], script: &[Ev], rep: &mut Report) {
    if name == V::NAME {
        stream_check::<V>(data, script, rep);
    }
}
fn replay_compare<V: Variant>(name: &str, l: &str, r: &str, rep: &mut Report) {
    if name == V::NAME {
        compare_check::<V>(l, r, rep);
    }
}

pub fn replay(case: &Json, ctx: &Ctx, rep: &mut Report) -> bool {
    let v = case.get("variant").and_then(|v| v.as_str()).unwrap_or("");
    if let (Some(l), Some(r)) = (case.get("left").and_then(|x| x.as_str()), case.get("right").and_then(|x| x.as_str())) {
        all_variants!(replay_compare, v, l, r, rep);
        return true;
    }
    if let Some(script) = case.get("script").and_then(script_from_json) {
        if let Some(data) = case.get_hex("data") {
            all_variants!(replay_stream, v, &data, &script, rep);
            return true;
        }
        rep.inconclusive("replay: the stream data was too large to be stored; re-run the monitor with the recorded seed");
        return true;
    }
    if case.get("pipe").is_some() {
        run_pipe(ctx, rep);
        return true;
    }
    if case.get("file_size").is_some() || case.get("missing_path").is_some() {
        files(ctx, rep);
        return true;
    }
    false
}

// ---------------------------------------------------------------------------
// Real file descriptors: a pipe fed by a slow writer thread while the reading thread is
// bombarded with signals whose handler is installed without SA_RESTART, so that read(2)
// really returns EINTR (std's `File::read` reports it as ErrorKind::Interrupted).

#[cfg(all(target_os = "linux", not(miri)))]
mod realpipe {
    use std::sync::atomic::{AtomicBool, AtomicU64, Ordering};

    #[repr(C)]
    pub struct SigAction {
        pub handler: usize,
        pub mask: [u64; 16],
        pub flags: i32,
        pub restorer: usize,
    }
    extern "C" {
        pub fn pipe(fds: *mut i32) -> i32;
        pub fn sigaction(signum: i32, act: *const SigAction, old: *mut SigAction) -> i32;
        pub fn pthread_self() -> usize;
        pub fn pthread_kill(thread: usize, sig: i32) -> i32;
    }
    pub const SIGUSR1: i32 = 10;
    pub static SIGNALS_HANDLED: AtomicU64 = AtomicU64::new(0);
    pub static STOP: AtomicBool = AtomicBool::new(false);
    extern "C" fn on_signal(_sig: i32) {
        SIGNALS_HANDLED.fetch_add(1, Ordering::Relaxed);
    }
    pub fn install_handler() -> bool {
        let act = SigAction { handler: on_signal as extern "C" fn(i32) as usize, mask: [0; 16], flags: 0, restorer: 0 };
        unsafe { sigaction(SIGUSR1, &act, std::ptr::null_mut()) == 0 }
    }
}

/// A reader wrapper counting what the underlying reader did.
pub struct CountingReader<R> {
    pub inner: R,
    pub reads: u64,
    pub interrupted: u64,
    pub short_reads: u64,
    pub bytes: u64,
}
impl<R: Read> Read for CountingReader<R> {
    fn read(&mut self, buf: &mut [u8]) -> io::Result<usize> {
        self.reads += 1;
        match self.inner.read(buf) {
            Ok(n) => {
                self.bytes += n as u64;
                if n > 0 && n < buf.len() {
                    self.short_reads += 1;
                }
                Ok(n)
            }
            Err(e) => {
                if e.kind() == ErrorKind::Interrupted {
                    self.interrupted += 1;
                }
                Err(e)
            }
        }
    }
}

#[cfg(all(target_os = "linux", not(miri)))]
pub fn run_pipe(ctx: &Ctx, rep: &mut Report) {
    use realpipe::*;
    use std::os::fd::FromRawFd;
    use std::sync::atomic::Ordering;
    rep.rule = "real pipes: a writer thread feeds seeded data in small chunks with pauses while a third thread sends SIGUSR1 (handler installed without SA_RESTART) to the hashing thread every few microseconds, so that read(2) genuinely returns EINTR and short counts; hash_stream_for on the pipe must equal hash_buf of the data; a counting wrapper records the interruptions and short reads that really happened; non-trivial = a stream with at least one real EINTR or short read; distinct by fingerprint of the data".into();
    if !install_handler() {
        rep.inconclusive("cannot install the signal handler");
        return;
    }
    let n = ctx.n(300, 6_000);
    for i in 0..n {
        let mut rng = ctx.rng("c12-pipe", i);
        let len = match rng.below(6) {
            0 => rng.range(0, 200) as usize,
            1 => rng.range(1 << 20, (1 << 20) + 70000) as usize,
            _ => rng.range(200, 300_000) as usize,
        };
        let (data, _) = gen::content(&mut rng, len, None);
        let chunk = *rng.pick(&[1usize, 3, 7, 64, 1000, 4096, 65536]);
        let pause_us = *rng.pick(&[0u64, 0, 5, 40]);
        let mut fds = [0i32; 2];
        if unsafe { pipe(fds.as_mut_ptr()) } != 0 {
            rep.inconclusive("pipe() failed");
            return;
        }
        let rd = unsafe { std::fs::File::from_raw_fd(fds[0]) };
        let mut wr = unsafe { std::fs::File::from_raw_fd(fds[1]) };
        let reader_tid = unsafe { pthread_self() };
        STOP.store(false, Ordering::SeqCst);
        let wdata = data.clone();
        let writer = std::thread::spawn(move || {
            use std::io::Write;
            // at most ~4000 chunks, so tiny chunk sizes apply to the head of the stream only
            let mut pos = 0usize;
            let mut writes = 0u64;
            while pos < wdata.len() {
                let c = if writes < 4000 { chunk } else { 65536 };
                let end = (pos + c).min(wdata.len());
                if wr.write_all(&wdata[pos..end]).is_err() {
                    break;
                }
                pos = end;
                writes += 1;
                if pause_us > 0 && writes % 4 == 0 {
                    std::thread::sleep(std::time::Duration::from_micros(pause_us));
                }
            }
            drop(wr); // EOF
        });
        let pinger = std::thread::spawn(move || {
            while !STOP.load(Ordering::Relaxed) {
                unsafe {
                    pthread_kill(reader_tid, SIGUSR1);
                }
                std::thread::sleep(std::time::Duration::from_micros(15));
            }
        });
        let mut counting = CountingReader { inner: rd, reads: 0, interrupted: 0, short_reads: 0, bytes: 0 };
        let got = match i % 5 {
            0 => guard(|| crate::variant::VNormal::hash_stream(&mut counting).map(|h| h.to_string()).map_err(|e| e.to_string())),
            1 => guard(|| crate::variant::VShort::hash_stream(&mut counting).map(|h| h.to_string()).map_err(|e| e.to_string())),
            2 => guard(|| crate::variant::VLong::hash_stream(&mut counting).map(|h| h.to_string()).map_err(|e| e.to_string())),
            3 => guard(|| crate::variant::VNormal3::hash_stream(&mut counting).map(|h| h.to_string()).map_err(|e| e.to_string())),
            _ => guard(|| crate::variant::VLong3::hash_stream(&mut counting).map(|h| h.to_string()).map_err(|e| e.to_string())),
        };
        STOP.store(true, Ordering::SeqCst);
        let _ = pinger.join();
        drop(counting.inner);
        let _ = writer.join();
        let exp = match i % 5 {
            0 => crate::variant::VNormal::hash_buf(&data).map(|h| h.to_string()).map_err(|e| e.to_string()),
            1 => crate::variant::VShort::hash_buf(&data).map(|h| h.to_string()).map_err(|e| e.to_string()),
            2 => crate::variant::VLong::hash_buf(&data).map(|h| h.to_string()).map_err(|e| e.to_string()),
            3 => crate::variant::VNormal3::hash_buf(&data).map(|h| h.to_string()).map_err(|e| e.to_string()),
            _ => crate::variant::VLong3::hash_buf(&data).map(|h| h.to_string()).map_err(|e| e.to_string()),
        };
        rep.eval(1);
        rep.count("pipe:streams", 1);
        rep.count("pipe:real_EINTR_seen_by_reader", counting.interrupted);
        rep.count("pipe:short_reads", counting.short_reads);
        rep.count("pipe:reads", counting.reads);
        if counting.interrupted > 0 {
            rep.count("pipe:streams_with_real_EINTR", 1);
        }
        if counting.interrupted > 0 || counting.short_reads > 0 {
            rep.distinct(fingerprint(&data) ^ i);
        }
        let case = Json::obj()
            .with("variant_index", i % 5)
            .with("pipe", true)
            .with("data_len", data.len())
            .with("chunk", chunk)
            .with("real_EINTR", counting.interrupted)
            .with("short_reads", counting.short_reads);
        match got {
            Err(p) => rep.violation("pipe|panic", &format!("panic: {} at {}", p.message, p.location), case),
            Ok(g) => {
                if g != exp {
                    rep.violation(
                        if matches!(&g, Err(e) if e.to_lowercase().contains("interrupt")) { "pipe|interrupted-not-retried" } else { "pipe|differs-from-buffer-hash" },
                        &format!(
                            "pipe delivering {} bytes in {}-byte chunks ({} real EINTR, {} short reads): helper returned {:?}, hash_buf gives {:?}",
                            data.len(), chunk, counting.interrupted, counting.short_reads, g, exp
                        ),
                        case,
                    );
                }
            }
        }
        if rep.want_sample() && counting.interrupted > 0 {
            rep.sample(Json::obj().with("data_len", data.len()).with("chunk", chunk).with("real_EINTR", counting.interrupted).with("short_reads", counting.short_reads).with("reads", counting.reads));
        }
    }
    rep.count("pipe:signals_handled", SIGNALS_HANDLED.load(Ordering::Relaxed));
    rep.floor("pipe:streams_with_real_EINTR", 5);
    rep.floor("pipe:short_reads", 50);
}

#[cfg(not(all(target_os = "linux", not(miri))))]
pub fn run_pipe(_ctx: &Ctx, rep: &mut Report) {
    rep.inconclusive("the real-pipe monitor needs Linux and a native run");
}
