//! C09 — length code: monotone bucketing consistent with range().

use crate::json::Json;
use crate::oracle::{self, Opts, MAX_DATA_LENGTH, TOP};
use crate::report::{guard, Report};
use crate::variant::{options, VNormal, VShort, Variant};
use crate::Ctx;
use tlsh::length::FuzzyHashLengthEncoding;
use tlsh::{FuzzyHashType, GeneratorType, ParseError};

fn check_one(n: u32, model: Option<usize>, rep: &mut Report, bad: &mut u64) -> Option<u8> {
    let got = FuzzyHashLengthEncoding::new(n);
    let got2 = FuzzyHashLengthEncoding::try_from(n);
    let mut v = |sig: &str, what: String| {
        *bad += 1;
        if *bad <= 6 {
            rep.violation(sig, &what, Json::obj().with("length", n));
        }
    };
    match (&got, &got2) {
        (Some(a), Ok(b)) if a == b => {}
        (None, Err(ParseError::LengthIsTooLarge)) => {}
        _ => v("length|try_from-vs-new", format!("new({}) = {:?} but try_from = {:?}", n, got.map(|x| x.value()), got2.map(|x| x.value()))),
    }
    match (got, model) {
        (Some(c), Some(m)) => {
            if c.value() as usize != m {
                v("length|wrong-code", format!("new({}) = code {} but the table model gives {}", n, c.value(), m));
            }
            match c.range() {
                Some(r) if r.contains(&n) => {}
                other => v("length|range", format!("new({}) = code {} whose range() = {:?} does not contain it", n, c.value(), other)),
            }
            if !c.is_valid() {
                v("length|is_valid", format!("new({}) = code {} is reported invalid", n, c.value()));
            }
            Some(c.value())
        }
        (None, None) => None,
        (Some(c), None) => {
            v("length|accepts-too-large", format!("new({}) = Some(code {}) above the maximum {}", n, c.value(), MAX_DATA_LENGTH));
            None
        }
        (None, Some(m)) => {
            v("length|rejects-valid", format!("new({}) = None but the length is <= maximum (model code {})", n, m));
            None
        }
    }
}

pub fn run(ctx: &Ctx, rep: &mut Report) {
    let exhaustive = ctx.scale >= 1.0;
    rep.exhaustive = Some(exhaustive);
    rep.rule = if exhaustive {
        "all 2^32 lengths through FuzzyHashLengthEncoding::new and try_from: acceptance <=> n <= 4 224 281 216, code non-decreasing, n within range(code), code equal to the linear-scan model over the independently typed table; all 256 codes: range().is_some() <=> is_valid() <=> c < 170 and the ranges tile 0..=MAX; generated hashes carry code(n) at every table edge (hook H2); every length is a distinct case".into()
    } else {
        "boundary set only (reduced run): table edges +-2, powers of two +-2, both ends".into()
    };
    let mut bad = 0u64;
    let mut evals = 0u64;
    if exhaustive {
        let (lo, hi) = ctx.slice(1u64 << 32);
        let mut cur = oracle::length_code(lo);
        let mut prev_code: Option<u8> = None;
        let mut accepted = 0u64;
        for n in lo..hi {
            // incremental linear scan
            if let Some(c) = cur {
                if n > TOP[c] as u64 {
                    cur = if c + 1 < 170 { Some(c + 1) } else { None };
                }
            }
            // fast path: call the crate, compare the code; full checks at changes
            let got = FuzzyHashLengthEncoding::new(n as u32);
            let ok = match (got, cur) {
                (Some(c), Some(m)) => c.value() as usize == m && prev_code.map_or(true, |p| c.value() >= p),
                (None, None) => true,
                _ => false,
            };
            let edge = cur.map_or(n <= MAX_DATA_LENGTH + 2, |m| n == TOP[m] as u64 || m > 0 && n == TOP[m - 1] as u64 + 1);
            if !ok || edge || n % 4099 == 0 {
                let c = check_one(n as u32, cur, rep, &mut bad);
                if let (Some(c), Some(p)) = (c, prev_code) {
                    if c < p {
                        bad += 1;
                        rep.violation("length|not-monotone", &format!("code({}) = {} < code({}) = {}", n, c, n - 1, p), Json::obj().with("length", n));
                    }
                }
            }
            if let Some(c) = got {
                accepted += 1;
                prev_code = Some(c.value());
            }
        }
        evals += hi - lo;
        rep.count("lengths_enumerated", hi - lo);
        rep.count("lengths_accepted", accepted);
        rep.count("distinct_by_construction", hi - lo);
    } else {
        let mut set: Vec<u64> = vec![0, 1, 2, u32::MAX as u64, u32::MAX as u64 - 1];
        for &t in TOP.iter() {
            for d in 0..5 {
                set.push((t as u64 + d).saturating_sub(2));
            }
        }
        for k in 0..32 {
            for d in 0..5u64 {
                set.push(((1u64 << k) + d).saturating_sub(2));
            }
        }
        set.retain(|&x| x <= u32::MAX as u64);
        set.sort_unstable();
        set.dedup();
        let mut prev: Option<u8> = None;
        for &n in &set {
            let c = check_one(n as u32, oracle::length_code(n), rep, &mut bad);
            if let (Some(c), Some(p)) = (c, prev) {
                if c < p {
                    rep.violation("length|not-monotone", &format!("code({}) = {} below an earlier code {}", n, c, p), Json::obj().with("length", n));
                }
            }
            if c.is_some() {
                prev = c;
            }
            evals += 1;
        }
        rep.count("lengths_enumerated", set.len() as u64);
        rep.count("distinct_by_construction", set.len() as u64);
    }
    if ctx.shard == 0 {
        codes(rep, &mut evals);
        generated(rep, &mut evals);
    }
    rep.eval(evals);
    rep.sample(Json::obj().with("length", 4224281216u64).with("code", FuzzyHashLengthEncoding::new(4224281216).map(|c| c.value() as i64).unwrap_or(-1)));
    rep.sample(Json::obj().with("length", 4224281217u64).with("accepted", FuzzyHashLengthEncoding::new(4224281217).is_some()));
}

/// All 256 codes (codes >= 170 are reachable through the lenient parser's accessor).
fn codes(rep: &mut Report, evals: &mut u64) {
    let mut prev_end: Option<u32> = None;
    for c in 0..=255u8 {
        let mut b = vec![0u8; VNormal::SIZE];
        b[VNormal::CK] = c;
        let h = match VNormal::from_array(&b) {
            Ok(h) => h,
            Err(_) => {
                rep.count("codes_not_constructible", 1);
                continue;
            }
        };
        let l = *h.length();
        *evals += 1;
        rep.count("codes_checked", 1);
        let r = l.range();
        let case = Json::obj().with("code", c);
        if l.value() != c {
            rep.violation("code|value", &format!("length().value() = {} for code byte {}", l.value(), c), case.clone());
        }
        if r.is_some() != l.is_valid() || l.is_valid() != (c < 170) {
            rep.violation("code|validity", &format!("code {}: range().is_some() = {}, is_valid() = {}", c, r.is_some(), l.is_valid()), case.clone());
        }
        if let Some(r) = r {
            let (lo, hi) = (*r.start(), *r.end());
            let want_lo = match prev_end {
                None => 0,
                Some(e) => e + 1,
            };
            if lo != want_lo || hi < lo {
                rep.violation("code|tiling", &format!("range({}) = {}..={} does not continue at {}", c, lo, hi, want_lo), case.clone());
            }
            if Some((lo as u64, hi as u64)) != oracle::length_range(c as usize) {
                rep.violation("code|range-vs-model", &format!("range({}) = {}..={} vs model {:?}", c, lo, hi, oracle::length_range(c as usize)), case.clone());
            }
            // both ends encode back to c
            for n in [lo, hi] {
                if FuzzyHashLengthEncoding::new(n).map(|x| x.value()) != Some(c) {
                    rep.violation("code|range-end", &format!("range({}) contains {} which encodes to {:?}", c, n, FuzzyHashLengthEncoding::new(n).map(|x| x.value())), case.clone());
                }
            }
            prev_end = Some(hi);
        }
    }
    if rep.counters.get("codes_checked").copied().unwrap_or(0) >= 170 && prev_end != Some(MAX_DATA_LENGTH as u32) {
        rep.violation("code|tiling-end", &format!("the ranges end at {:?}, not at the maximum", prev_end), Json::obj().with("code", 169));
    }
}

/// Generated hashes carry the code of the number of bytes fed (states at every table edge).
fn generated(rep: &mut Report, evals: &mut u64) {
    fn at<V: Variant>(n: u64, rep: &mut Report, evals: &mut u64) {
        if n < 4 {
            return;
        }
        let mut rng = crate::rng::Rng::new(n);
        let (mut st, _) = crate::gen::state(&mut rng);
        st.len = (n - 4) as u32;
        st.tail_len = 4;
        let r = guard(|| {
            V::gen_from_state(&st)
                .finalize_with_options(&options(Opts(30)))
                .map(|h| h.length().value())
        });
        *evals += 1;
        rep.count("generated_at_edges", 1);
        let want = oracle::length_code(n).map(|c| c as u8);
        match r {
            Ok(Ok(c)) if Some(c) == want => {}
            Ok(Err(tlsh::GeneratorError::TooLargeInput)) if want.is_none() => {}
            other => rep.violation(
                &format!("generated|{}", V::NAME),
                &format!("a generator holding {} bytes yields length code {:?}, expected {:?}", n, other.map(|r| r.ok()).ok(), want),
                Json::obj().with("generated_length", n).with("variant", V::NAME),
            ),
        }
    }
    for (i, &t) in TOP.iter().enumerate() {
        if crate::gen::small() && i % 17 != 3 && i != 169 {
            continue;
        }
        for d in [0u64, 1, 2] {
            at::<VNormal>(t as u64 + d - 1, rep, evals);
            at::<VShort>(t as u64 + d - 1, rep, evals);
        }
    }
}

pub fn replay(case: &Json, rep: &mut Report) -> bool {
    if let Some(n) = case.get("length").and_then(|x| x.as_u64()) {
        let mut bad = 0;
        check_one(n as u32, oracle::length_code(n), rep, &mut bad);
        if n > 0 {
            let a = FuzzyHashLengthEncoding::new(n as u32 - 1).map(|c| c.value());
            let b = FuzzyHashLengthEncoding::new(n as u32).map(|c| c.value());
            if let (Some(a), Some(b)) = (a, b) {
                if b < a {
                    rep.violation("length|not-monotone", "code decreases", case.clone());
                }
            }
        }
        rep.eval(2);
        return true;
    }
    if case.get("code").is_some() || case.get("generated_length").is_some() {
        let mut e = 0;
        codes(rep, &mut e);
        generated(rep, &mut e);
        rep.eval(e);
        return true;
    }
    false
}
