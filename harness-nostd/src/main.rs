//! A `#![no_std]`, allocator-less program using fast-tlsh (C18).
//!
//! There is no `extern crate alloc` and no `#[global_allocator]` anywhere in
//! this program: if fast-tlsh (with the selected features) needed the `alloc`
//! crate this would not link.  The program generates, formats, parses and
//! compares with built-in expectations and reports through its exit status.
#![no_std]
#![no_main]

use core::panic::PanicInfo;
use tlsh::hashes::{Long, LongWithLongChecksum, Normal, NormalWithLongChecksum, Short};
use tlsh::{FuzzyHashType, GeneratorOptions, GeneratorType, HexStringPrefix, TlshGeneratorFor};

#[panic_handler]
fn panic(_info: &PanicInfo) -> ! {
    unsafe { exit(101) }
}

#[no_mangle]
pub extern "C" fn rust_eh_personality() {}

#[allow(non_snake_case)]
#[no_mangle]
pub extern "C" fn _Unwind_Resume() -> ! {
    unsafe { exit(102) }
}

#[link(name = "c")]
extern "C" {
    fn exit(code: i32) -> !;
    fn write(fd: i32, buf: *const u8, count: usize) -> isize;
}

fn say(s: &[u8]) {
    unsafe {
        write(1, s.as_ptr(), s.len());
    }
}

const LOREM: &[u8] = b"Lorem ipsum dolor sit amet, consectetur adipiscing elit, sed do eiusmod tempor incididunt ut labore et dolore magna aliqua. Ut enim ad minim veniam, quis nostrud exercitation ullamco laboris nisi ut aliquip ex ea commodo consequat. Duis aute irure dolor in reprehenderit in voluptate velit esse cillum dolore eu fugiat nulla pariatur. Excepteur sint occaecat cupidatat non proident, sunt in culpa qui officia deserunt mollit anim id est laborum.";

macro_rules! exercise {
    ($ty:ty, $code:expr) => {{
        let mut g = TlshGeneratorFor::<$ty>::new();
        // chunked feeding
        for piece in LOREM.chunks(7) {
            g.update(piece);
        }
        if g.processed_len() != Some(LOREM.len() as u32) {
            return $code + 1;
        }
        let h = match g.finalize() {
            Ok(h) => h,
            Err(_) => return $code + 2,
        };
        let mut opts = GeneratorOptions::new();
        opts.pure_integer_qratio_computation(true);
        if g.finalize_with_options(&opts).is_err() {
            return $code + 3;
        }
        // format into caller buffers, parse back, compare
        let mut text = [0u8; <$ty>::LEN_IN_STR];
        match h.store_into_str_bytes(&mut text, HexStringPrefix::WithVersion) {
            Ok(n) if n == <$ty>::LEN_IN_STR => {}
            _ => return $code + 4,
        }
        let back = match <$ty>::from_str_bytes(&text, None) {
            Ok(b) => b,
            Err(_) => return $code + 5,
        };
        if back != h || back.compare(&h) != 0 {
            return $code + 6;
        }
        let mut bin = [0u8; <$ty>::SIZE_IN_BYTES];
        if h.store_into_bytes(&mut bin) != Ok(<$ty>::SIZE_IN_BYTES) {
            return $code + 7;
        }
        let back2 = match <$ty>::try_from(&bin[..]) {
            Ok(b) => b,
            Err(_) => return $code + 8,
        };
        if back2 != h {
            return $code + 9;
        }
        // a different input gives a different hash at a positive distance
        let mut g2 = TlshGeneratorFor::<$ty>::new();
        g2.update(&LOREM[..300]);
        g2.update(b"something else entirely, 0123456789 abcdefghijklmnopqrstuvwxyz ABCDEFGHIJKLMNOPQRSTUVWXYZ");
        match g2.finalize() {
            Ok(h2) => {
                if h2 == h || h2.compare(&h) == 0 || h2.compare(&h) != h.compare(&h2) {
                    return $code + 10;
                }
            }
            Err(_) => return $code + 11,
        }
        if <$ty>::from_str_bytes(b"TNULL", None).is_ok() {
            return $code + 12;
        }
        (text, h)
    }};
}

fn run() -> i32 {
    let (text, _) = exercise!(Normal, 10);
    // the official TLSH value of this text (Normal variant, from the repository's test vectors)
    const EXPECTED_NORMAL: &[u8] = b"T1DCF0DC36520C1B007FD32079B226559FD998A0200725E75AFCEAC99F5881184A4B1AA2";
    if text != *EXPECTED_NORMAL {
        say(b"unexpected Normal hash: ");
        say(&text);
        say(b"\n");
        return 30;
    }
    let _ = exercise!(Short, 40);
    let _ = exercise!(NormalWithLongChecksum, 60);
    let _ = exercise!(Long, 80);
    let _ = exercise!(LongWithLongChecksum, 100);
    // the "easy" functions that need neither std nor alloc
    #[cfg(feature = "t-easy-functions")]
    {
        match tlsh::hash_buf(LOREM) {
            Ok(h) => {
                let mut t = [0u8; Normal::LEN_IN_STR];
                if h.store_into_str_bytes(&mut t, HexStringPrefix::WithVersion).is_err() || t != *EXPECTED_NORMAL {
                    return 130;
                }
            }
            Err(_) => return 131,
        }
        if tlsh::hash_buf_for::<Short>(b"Hello, World!").is_err() {
            return 132;
        }
        match tlsh::compare(
            "T12AD5BE86FFE41D17CC268876A9AE472077B2B0032716DBAF1849A7647DDB7C0DF16488",
            "T1EDD5BE96FFE41D1BCC268C7699AE4720B7B2A0032716DBAF1848A7647DD77C0DF16488",
        ) {
            Ok(9) => {}
            _ => return 133,
        }
        if tlsh::compare_with::<Short>("T140D5F17F44F8AB007AE2AC46E515DC", "TNULL").is_ok() {
            return 134;
        }
    }
    // length API
    match tlsh::length::FuzzyHashLengthEncoding::new(4224281216) {
        Some(c) if c.value() == 169 => {}
        _ => return 120,
    }
    if tlsh::length::FuzzyHashLengthEncoding::new(4224281217).is_some() {
        return 121;
    }
    0
}

#[no_mangle]
pub extern "C" fn main(_argc: i32, _argv: *const *const u8) -> i32 {
    let r = run();
    if r == 0 {
        say(b"nostd-ok\n");
    }
    r
}
