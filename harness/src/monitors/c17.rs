//! C17 — the safe API is total and memory-safe in every configuration.
//!
//! This monitor is the *workload*; the deciding oracles are the tools it runs
//! under (Miri, AddressSanitizer, valgrind, debug-assertion + overflow-check
//! builds), the panic classifier below and the invariant!() observer (hook H7).

use crate::gen;
use crate::json::Json;
use crate::oracle::Opts;
use crate::report::{guard, Panicked, Report};
use crate::rng::{fingerprint, Rng};
use crate::variant::{options, Variant};
use crate::Ctx;
use std::collections::BTreeMap;
use std::io::{self, ErrorKind, Read};
use std::str::FromStr;
use std::sync::Mutex;
use tlsh::length::FuzzyHashLengthEncoding;
use tlsh::{ComparisonConfiguration, FuzzyHashType, GeneratorOrIOError, GeneratorType, HexStringPrefix};

// ---------------------------------------------------------------------------
// invariant!() observer (hook H7)

static INVARIANTS: Mutex<BTreeMap<(String, u32, String), (u64, u64)>> = Mutex::new(BTreeMap::new());

fn invariant_observer(file: &'static str, line: u32, expr: &'static str, value: bool) {
    if let Ok(mut m) = INVARIANTS.lock() {
        let base = file.rsplit('/').next().unwrap_or(file).to_string();
        let e = m.entry((base, line, expr.to_string())).or_insert((0, 0));
        e.0 += 1;
        if !value {
            e.1 += 1;
        }
    }
}

/// Snapshot of the false-evaluation counters (to attribute failures to an operation).
fn invariant_failures() -> u64 {
    INVARIANTS.lock().map(|m| m.values().map(|v| v.1).sum()).unwrap_or(0)
}

// ---------------------------------------------------------------------------
// Panic classifier

#[derive(Debug, PartialEq)]
pub enum PanicClass {
    /// `quartile(i)` with `i >= NUM_BUCKETS`
    DocumentedBucketIndex,
    /// bounds panic provoked by a reader that violates the `Read` contract
    ContractViolatingReader,
    /// raised by a harness-supplied trait implementation and merely propagated
    PropagatedFromHarness,
    Unexpected,
}

pub fn classify(p: &Panicked, out_of_range_index: bool, misreporting_reader: bool) -> PanicClass {
    if p.message.contains("harness-supplied") {
        return PanicClass::PropagatedFromHarness;
    }
    if out_of_range_index && p.message.contains("index < Self::NUM_BUCKETS") && p.location.contains("hash/body.rs") {
        return PanicClass::DocumentedBucketIndex;
    }
    if misreporting_reader
        && p.location.contains("generate_easy_std.rs")
        && (p.message.contains("out of range for slice") || p.message.contains("range end index") || p.message.contains("len <= buffer.len()"))
    {
        return PanicClass::ContractViolatingReader;
    }
    PanicClass::Unexpected
}

// ---------------------------------------------------------------------------
// Adversarial readers

pub const READER_KINDS: [&str; 8] = [
    "misreport+1", "misreport+4096", "misreport-usize-max", "claims-more-than-written", "panics-mid-stream",
    "alternating-errors", "zero-then-data", "huge-claim-after-data",
];

pub struct Adversary {
    pub kind: usize,
    pub data: Vec<u8>,
    pub pos: usize,
    pub calls: u64,
}

impl Read for Adversary {
    fn read(&mut self, buf: &mut [u8]) -> io::Result<usize> {
        self.calls += 1;
        let remaining = self.data.len() - self.pos;
        let n = remaining.min(buf.len()).min(777);
        buf[..n].copy_from_slice(&self.data[self.pos..self.pos + n]);
        self.pos += n;
        match self.kind {
            0 => Ok(if self.calls == 2 { buf.len() + 1 } else { n }),
            1 => Ok(if self.calls == 1 { buf.len() + 4096 } else { n }),
            2 => Ok(if self.calls == 3 || remaining == 0 { usize::MAX } else { n }),
            3 => {
                // within bounds, but more than was written (stale buffer contents are hashed): allowed
                if self.calls > 40 {
                    Ok(0)
                } else {
                    Ok((n + 100).min(buf.len()))
                }
            }
            4 => {
                if self.calls == 3 {
                    panic!("harness-supplied reader panics mid-stream");
                }
                Ok(n)
            }
            5 => {
                if self.calls % 2 == 0 && self.calls < 20 {
                    Err(io::Error::new(ErrorKind::Interrupted, "again"))
                } else if self.calls == 21 {
                    Err(io::Error::new(ErrorKind::Other, "hard"))
                } else {
                    Ok(n)
                }
            }
            6 => Ok(n),
            _ => Ok(if remaining == 0 && self.calls > 1 { buf.len() * 2 } else { n }),
        }
    }
}

fn adversarial_one<V: Variant>(kind: usize, data: &[u8], rep: &mut Report) {
    let case = || {
        Json::obj()
            .with("variant", V::NAME)
            .with("reader", READER_KINDS[kind])
            .with("reader_kind", kind)
            .with("data", Json::hex(&data[..data.len().min(4096)]))
    };
    let inv_before = invariant_failures();
    let mut rd = Adversary { kind, data: data.to_vec(), pos: 0, calls: 0 };
    let r = guard(|| V::hash_stream(&mut rd));
    rep.eval(1);
    rep.count(&format!("reader:{}", READER_KINDS[kind]), 1);
    let misreports = matches!(kind, 0 | 1 | 2 | 7);
    match r {
        Err(p) => match classify(&p, false, misreports) {
            PanicClass::ContractViolatingReader => rep.count("panic:contract-violating-reader(clean)", 1),
            PanicClass::PropagatedFromHarness => rep.count("panic:propagated-from-harness", 1),
            _ => rep.violation(
                &format!("adversarial|{}|unexpected-panic", READER_KINDS[kind]),
                &format!("reader {}: unexpected panic {:?} at {}", READER_KINDS[kind], p.message, p.location),
                case(),
            ),
        },
        Ok(res) => {
            if misreports && rd.calls > 0 {
                // a misreport that was never reached, or an implementation that tolerates it
                rep.count("misreporting_reader_returned_normally", 1);
            }
            if kind == 5 {
                match res {
                    Err(GeneratorOrIOError::IOError(e)) if e.kind() == ErrorKind::Other => {}
                    Err(GeneratorOrIOError::IOError(_)) => {}
                    _ if rd.calls < 21 => {}
                    _ => rep.violation("adversarial|alternating-errors|hard-error-lost", "the hard error after the interruptions was swallowed", case()),
                }
            }
        }
    }
    // a contract-violating reader may make an invariant!() false *only if* that invariant is
    // about the reader's return value; the property demands that this is at worst a clean
    // panic in every configuration, so an invariant!() (= unreachable_unchecked with feature
    // `unsafe`) that a safe trait implementation can falsify is reported.
    let inv_after = invariant_failures();
    if inv_after > inv_before {
        rep.violation(
            &format!("invariant-falsifiable-by-safe-code|{}", if misreports { "misreporting-reader" } else { "honest-reader" }),
            &format!(
                "reader {}: an invariant!() expression evaluated to false; with feature `unsafe` this site is core::hint::unreachable_unchecked(), i.e. undefined behaviour reachable from safe code",
                READER_KINDS[kind]
            ),
            case(),
        );
    }
}

// ---------------------------------------------------------------------------
// API fuzz

pub const FUZZ_OPS: [&str; 12] = [
    "generator-history", "parse-text", "try_from-bytes", "store", "compare+accessors", "quartile-index",
    "length-api", "honest-stream", "injected-state", "compare_with-strings", "adversarial-reader", "update-after-huge",
];

static SMALL: std::sync::atomic::AtomicBool = std::sync::atomic::AtomicBool::new(false);

/// Inputs for the fuzz: capped when running under an interpreter (reduced scale).
fn fuzz_input(rng: &mut Rng) -> Vec<u8> {
    if SMALL.load(std::sync::atomic::Ordering::Relaxed) {
        let len = match rng.below(4) {
            0 => rng.below(12) as usize,
            1 => rng.range(40, 70) as usize,
            _ => rng.range(5, 420) as usize,
        };
        gen::content(rng, len, None).0
    } else {
        gen::input(rng, false, None).0
    }
}

fn fuzz_one<V: Variant>(op: usize, rng: &mut Rng, rep: &mut Report) {
    let seed_for_case = rng.next_u64();
    let mut r2 = Rng::new(seed_for_case);
    let case = || {
        Json::obj()
            .with("variant", V::NAME)
            .with("fuzz_op", op)
            .with("fuzz_seed", seed_for_case)
    };
    let inv_before = invariant_failures();
    let mut out_of_range = false;
    let res = {
        let rng = &mut r2;
        let oor = &mut out_of_range;
        guard(move || {
            let mut acc = 0u64;
            match op {
                0 => {
                    let data = fuzz_input(rng);
                    let mut g = V::new_gen();
                    let mut pos = 0;
                    for n in gen::pieces(rng, data.len()) {
                        g.update(&data[pos..pos + n]);
                        pos += n;
                        if rng.chance(1, 8) {
                            let _ = g.finalize_with_options(&options(Opts(rng.below(32) as u8)));
                        }
                        if rng.chance(1, 16) {
                            g = g.clone();
                        }
                    }
                    for o in 0..32u8 {
                        if let Ok(h) = g.finalize_with_options(&options(Opts(o))) {
                            acc ^= h.to_string().len() as u64;
                        }
                    }
                    acc ^= g.processed_len().unwrap_or(0) as u64;
                }
                1 => {
                    let len = match rng.below(4) {
                        0 => V::LEN_STR,
                        1 => V::LEN_STR - 2,
                        _ => rng.below(2 * V::LEN_STR as u64 + 4) as usize,
                    };
                    let s: Vec<u8> = match rng.below(3) {
                        0 => rng.bytes(len),
                        1 => (0..len).map(|_| b"0123456789abcdefABCDEFT1Gg"[rng.below(26) as usize]).collect(),
                        _ => {
                            let b = gen::hash_bytes(rng, V::SIZE, V::CK, V::NB, false);
                            let mut s = super::codec::random_case_text::<V>(rng, &b);
                            if rng.chance(1, 2) && !s.is_empty() {
                                let p = rng.below(s.len() as u64) as usize;
                                s[p] = rng.next_u8();
                            }
                            s
                        }
                    };
                    for m in 0..3u8 {
                        if let Ok(h) = V::H::from_str_bytes(&s, super::codec::mode_of(m)) {
                            acc ^= h.length().value() as u64;
                            acc ^= format!("{}", h).len() as u64;
                        }
                    }
                    if let Ok(st) = std::str::from_utf8(&s) {
                        acc ^= V::H::from_str(st).is_ok() as u64;
                    }
                }
                2 => {
                    let len = if rng.chance(2, 3) { V::SIZE } else { rng.below(2 * V::SIZE as u64 + 2) as usize };
                    let b = rng.bytes(len);
                    if let Ok(h) = V::from_slice(&b) {
                        acc ^= h.qratios().q1ratio() as u64 ^ V::checksum_valid(&h) as u64;
                        let mut c = h;
                        c.clear_checksum();
                        acc ^= c.compare(&h) as u64;
                    }
                    if b.len() == V::SIZE {
                        acc ^= V::from_array(&b).is_ok() as u64;
                    }
                }
                3 => {
                    let b = gen::hash_bytes(rng, V::SIZE, V::CK, V::NB, true);
                    if let Ok(h) = V::from_array(&b) {
                        let len = rng.below(V::LEN_STR as u64 + 80) as usize;
                        let mut buf = vec![0x11u8; len];
                        acc ^= h.store_into_bytes(&mut buf).unwrap_or(0) as u64;
                        acc ^= h.store_into_str_bytes(&mut buf, HexStringPrefix::Empty).unwrap_or(0) as u64;
                        acc ^= h.store_into_str_bytes(&mut buf, HexStringPrefix::WithVersion).unwrap_or(0) as u64;
                        acc ^= h.to_string().len() as u64;
                    }
                }
                4 => {
                    let a = gen::hash_bytes(rng, V::SIZE, V::CK, V::NB, true);
                    let b = gen::neighbour(rng, &a, V::CK, V::NB, true);
                    if let (Ok(ha), Ok(hb)) = (V::from_array(&a), V::from_array(&b)) {
                        acc ^= ha.compare(&hb) as u64;
                        acc ^= ha.compare_with_config(&hb, ComparisonConfiguration::NoLength) as u64;
                        acc ^= V::body_compare(&ha, &hb) as u64 ^ V::checksum_compare(&ha, &hb) as u64;
                        for i in 0..V::NB {
                            acc ^= V::quartile(&ha, i) as u64;
                        }
                        acc ^= V::H::max_distance(ComparisonConfiguration::Default) as u64;
                    }
                }
                5 => {
                    let a = gen::hash_bytes(rng, V::SIZE, V::CK, V::NB, true);
                    if let Ok(h) = V::from_array(&a) {
                        let idx = match rng.below(4) {
                            0 => V::NB,
                            1 => V::NB + rng.below(1000) as usize,
                            2 => usize::MAX - rng.below(4) as usize,
                            _ => rng.below(V::NB as u64) as usize,
                        };
                        *oor = idx >= V::NB;
                        acc ^= V::quartile(&h, idx) as u64;
                    }
                }
                6 => {
                    for _ in 0..16 {
                        let n = match rng.below(3) {
                            0 => rng.next_u32(),
                            1 => rng.next_u32() >> rng.below(32),
                            _ => (crate::oracle::TOP[rng.below(170) as usize] as u64 + rng.below(3)).saturating_sub(1) as u32,
                        };
                        if let Some(c) = FuzzyHashLengthEncoding::new(n) {
                            acc ^= c.value() as u64;
                            if let Some(r) = c.range() {
                                acc ^= (*r.end() - *r.start()) as u64;
                            }
                        }
                        acc ^= FuzzyHashLengthEncoding::try_from(n).is_ok() as u64;
                        acc ^= V::validity(n).is_err() as u64;
                    }
                }
                7 => {
                    let data = fuzz_input(rng);
                    let script = super::c12::gen_script(rng, data.len());
                    let mut rd = super::c12::Scripted::new(&data, &script);
                    acc ^= V::hash_stream(&mut rd).is_ok() as u64;
                }
                8 => {
                    let (mut st, _) = gen::state(rng);
                    if rng.chance(1, 4) {
                        st.len = u32::MAX - rng.below(8) as u32;
                    }
                    if rng.chance(1, 8) {
                        st.tail_len = rng.below(5) as u32;
                        if st.tail_len < 4 {
                            st.len = 0;
                        }
                    }
                    let mut g = V::gen_from_state(&st);
                    for o in [0u8, 2, 28, 30, 31] {
                        if let Ok(h) = g.finalize_with_options(&options(Opts(o))) {
                            acc ^= h.length().value() as u64;
                        }
                    }
                    let n = rng.below(64) as usize;
                    g.update(&rng.bytes(n));
                    acc ^= g.processed_len().unwrap_or(1) as u64;
                    acc ^= g.finalize().is_ok() as u64;
                }
                9 => {
                    let kl = super::c12::KINDS[rng.below(6) as usize];
                    let kr = super::c12::KINDS[rng.below(6) as usize];
                    let l = super::c12::gen_string::<V>(rng, kl);
                    let r = super::c12::gen_string::<V>(rng, kr);
                    acc ^= V::compare_with(&l, &r).is_ok() as u64;
                }
                10 => {}
                _ => {
                    // a generator that already saturated keeps accepting data
                    let (mut st, _) = gen::state(rng);
                    st.len = u32::MAX - 3 - rng.below(3) as u32;
                    st.tail_len = 4;
                    let mut g = V::gen_from_state(&st);
                    for _ in 0..4 {
                        let n = rng.below(40) as usize;
                        g.update(&rng.bytes(n));
                        acc ^= g.processed_len().is_none() as u64;
                        acc ^= g.finalize().is_err() as u64;
                    }
                }
            }
            std::hint::black_box(acc)
        })
    };
    rep.eval(1);
    rep.count(&format!("fuzz:{}", FUZZ_OPS[op]), 1);
    if let Err(p) = res {
        match classify(&p, out_of_range, false) {
            PanicClass::DocumentedBucketIndex => rep.count("panic:documented-bucket-index", 1),
            _ => rep.violation(
                &format!("fuzz|{}|unexpected-panic", FUZZ_OPS[op]),
                &format!("{} on {}: unexpected panic {:?} at {}", FUZZ_OPS[op], V::NAME, p.message, p.location),
                case(),
            ),
        }
    } else if out_of_range {
        rep.violation(
            "fuzz|quartile-index|no-panic",
            "quartile() with an out-of-range index returned normally (documented: panics)",
            case(),
        );
    }
    if invariant_failures() > inv_before {
        rep.violation(
            &format!("invariant-false|{}", FUZZ_OPS[op]),
            &format!("an invariant!() expression evaluated to false during {} on {} (contract-respecting input)", FUZZ_OPS[op], V::NAME),
            case(),
        );
    }
}

fn dispatch_variant(v: u64, f: &mut dyn FnMut(usize)) {
    f(v as usize % 5)
}

pub fn run_fuzz(ctx: &Ctx, rep: &mut Report) {
    rep.rule = "API fuzz: seeded call sequences over 12 operation kinds x 5 variants (generator histories with interleaved finalize/clone, parsing arbitrary bytes, TryFrom of arbitrary slices, storing into arbitrary buffers, comparison + every accessor, quartile() with in- and out-of-range indices, the length API, honest scripted readers, injected and saturated generator states, the string comparison helper) plus 8 adversarial Read implementations (three that report more than the buffer holds, one that claims more than it wrote, one that panics, error storms); panics are classified (documented bucket index / bounds panic provoked by a contract-violating reader / propagated from the harness / unexpected = violation); with hook H7 every invariant!() evaluation is observed; the process runs natively (release, debug-assertion+overflow-check) and under Miri / ASan / valgrind where a report is a violation; distinct by (operation, variant, case seed)".into();
    let observing = tlsh::verif::INVARIANTS_OBSERVED && tlsh::verif::set_invariant_observer(invariant_observer);
    rep.count(if observing { "invariant_observer:on" } else { "invariant_observer:off" }, 1);
    SMALL.store(ctx.scale < 0.5 && ctx.tool.starts_with("miri"), std::sync::atomic::Ordering::Relaxed);
    let n = ctx.n(200_000, 8_000_000);
    for i in 0..n {
        let mut rng = ctx.rng("c17-fuzz", i);
        let op = rng.below(FUZZ_OPS.len() as u64) as usize;
        let v = rng.below(5);
        if op == 10 {
            let kind = rng.below(READER_KINDS.len() as u64) as usize;
            let len = rng.below(if SMALL.load(std::sync::atomic::Ordering::Relaxed) { 300 } else { 5000 }) as usize;
            let data = rng.bytes(len);
            dispatch_variant(v, &mut |vi| match vi {
                0 => adversarial_one::<crate::variant::VShort>(kind, &data, rep),
                1 => adversarial_one::<crate::variant::VNormal>(kind, &data, rep),
                2 => adversarial_one::<crate::variant::VNormal3>(kind, &data, rep),
                3 => adversarial_one::<crate::variant::VLong>(kind, &data, rep),
                _ => adversarial_one::<crate::variant::VLong3>(kind, &data, rep),
            });
        } else {
            dispatch_variant(v, &mut |vi| match vi {
                0 => fuzz_one::<crate::variant::VShort>(op, &mut rng, rep),
                1 => fuzz_one::<crate::variant::VNormal>(op, &mut rng, rep),
                2 => fuzz_one::<crate::variant::VNormal3>(op, &mut rng, rep),
                3 => fuzz_one::<crate::variant::VLong>(op, &mut rng, rep),
                _ => fuzz_one::<crate::variant::VLong3>(op, &mut rng, rep),
            });
        }
        rep.distinct(fingerprint(&[(op as u64).to_le_bytes(), v.to_le_bytes(), i.to_le_bytes(), ctx.shard.to_le_bytes()].concat()));
        if rep.want_sample() && i % 11 == 3 {
            rep.sample(Json::obj().with("operation", FUZZ_OPS[op]).with("variant_index", v).with("case_index", i));
        }
    }
    // invariant sites
    if observing {
        let m = INVARIANTS.lock().map(|m| m.clone()).unwrap_or_default();
        let mut per_file: BTreeMap<String, u64> = BTreeMap::new();
        for ((file, line, expr), (hits, fails)) in &m {
            rep.seen("invariant-sites", &format!("{}:{} `{}`", file, line, expr));
            rep.count(&format!("invariant-hits:{}:{}", file, expr), *hits);
            rep.count("invariant-evaluations", *hits);
            rep.count("invariant-false-evaluations", *fails);
            *per_file.entry(file.clone()).or_insert(0) += 1;
        }
        if ctx.scale >= 1.0 {
            rep.set_floor("invariant-sites", 5);
            rep.floor("invariant-evaluations", 1000);
        }
    }
    if ctx.scale >= 1.0 {
        rep.floor("panic:documented-bucket-index", 1);
        rep.floor("panic:contract-violating-reader(clean)", 1);
        rep.floor("panic:propagated-from-harness", 1);
        for k in READER_KINDS {
            rep.floor(&format!("reader:{}", k), 1);
        }
    }
}

fn replay_variant<V: Variant>(name: &str, case: &Json, rep: &mut Report) {
    if name != V::NAME {
        return;
    }
    if let (Some(kind), Some(data)) = (case.get("reader_kind").and_then(|x| x.as_u64()), case.get_hex("data")) {
        adversarial_one::<V>(kind as usize, &data, rep);
    } else if let (Some(op), Some(seed)) = (case.get("fuzz_op").and_then(|x| x.as_u64()), case.get("fuzz_seed").and_then(|x| x.as_u64())) {
        // fuzz_one draws the case seed first: feed a generator that returns it
        struct Fixed;
        let _ = Fixed;
        let mut rng = RngWithFirst::make(seed);
        fuzz_one::<V>(op as usize, &mut rng, rep);
    }
}

/// An `Rng` whose first `next_u64()` returns a chosen value (for replays).
struct RngWithFirst;
impl RngWithFirst {
    fn make(first: u64) -> Rng {
        // search-free construction: xoshiro's first output depends only on s[1];
        // result = rotl(s1 * 5, 7) * 9  =>  s1 = inv5 * rotr(first * inv9, 7)
        let inv9 = 0x8e38e38e38e38e39u64; // 9^-1 mod 2^64
        let inv5 = 0xcccccccccccccccdu64; // 5^-1 mod 2^64
        let s1 = first.wrapping_mul(inv9).rotate_right(7).wrapping_mul(inv5);
        Rng::from_state([1, s1, 2, 3])
    }
}

pub fn replay(case: &Json, rep: &mut Report) -> bool {
    let observing = tlsh::verif::INVARIANTS_OBSERVED && tlsh::verif::set_invariant_observer(invariant_observer);
    let _ = observing;
    let v = match case.get("variant").and_then(|v| v.as_str()) {
        Some(v) => v,
        None => return false,
    };
    crate::all_variants!(replay_variant, v, case, rep);
    true
}
