//! Minimal JSON value, writer and parser (std only).

use std::collections::BTreeMap;
use std::fmt::Write;

#[derive(Clone, Debug, PartialEq)]
pub enum Json {
    Null,
    Bool(bool),
    Int(i128),
    Float(f64),
    Str(String),
    Arr(Vec<Json>),
    Obj(BTreeMap<String, Json>),
}

impl Json {
    pub fn obj() -> Json {
        Json::Obj(BTreeMap::new())
    }
    pub fn arr() -> Json {
        Json::Arr(Vec::new())
    }
    pub fn s<T: AsRef<str>>(s: T) -> Json {
        Json::Str(s.as_ref().to_string())
    }
    pub fn i<T: Into<i128>>(v: T) -> Json {
        Json::Int(v.into())
    }
    pub fn hex(bytes: &[u8]) -> Json {
        Json::Str(hex(bytes))
    }
    pub fn set<T: Into<Json>>(&mut self, key: &str, value: T) -> &mut Self {
        if let Json::Obj(m) = self {
            m.insert(key.to_string(), value.into());
        } else {
            panic!("not an object");
        }
        self
    }
    pub fn with<T: Into<Json>>(mut self, key: &str, value: T) -> Self {
        self.set(key, value);
        self
    }
    pub fn push<T: Into<Json>>(&mut self, value: T) {
        if let Json::Arr(v) = self {
            v.push(value.into());
        } else {
            panic!("not an array");
        }
    }
    pub fn get(&self, key: &str) -> Option<&Json> {
        match self {
            Json::Obj(m) => m.get(key),
            _ => None,
        }
    }
    pub fn as_str(&self) -> Option<&str> {
        match self {
            Json::Str(s) => Some(s),
            _ => None,
        }
    }
    pub fn as_i128(&self) -> Option<i128> {
        match self {
            Json::Int(i) => Some(*i),
            Json::Float(f) => Some(*f as i128),
            _ => None,
        }
    }
    pub fn as_u64(&self) -> Option<u64> {
        self.as_i128().map(|x| x as u64)
    }
    pub fn as_bool(&self) -> Option<bool> {
        match self {
            Json::Bool(b) => Some(*b),
            _ => None,
        }
    }
    pub fn as_arr(&self) -> Option<&Vec<Json>> {
        match self {
            Json::Arr(v) => Some(v),
            _ => None,
        }
    }
    pub fn as_obj(&self) -> Option<&BTreeMap<String, Json>> {
        match self {
            Json::Obj(v) => Some(v),
            _ => None,
        }
    }
    pub fn get_hex(&self, key: &str) -> Option<Vec<u8>> {
        self.get(key).and_then(|x| x.as_str()).and_then(unhex)
    }

    pub fn write(&self, out: &mut String) {
        match self {
            Json::Null => out.push_str("null"),
            Json::Bool(b) => out.push_str(if *b { "true" } else { "false" }),
            Json::Int(i) => {
                let _ = write!(out, "{}", i);
            }
            Json::Float(f) => {
                if f.is_finite() {
                    let _ = write!(out, "{:?}", f);
                } else {
                    out.push_str("null");
                }
            }
            Json::Str(s) => write_str(s, out),
            Json::Arr(v) => {
                out.push('[');
                for (i, x) in v.iter().enumerate() {
                    if i > 0 {
                        out.push(',');
                    }
                    x.write(out);
                }
                out.push(']');
            }
            Json::Obj(m) => {
                out.push('{');
                for (i, (k, x)) in m.iter().enumerate() {
                    if i > 0 {
                        out.push(',');
                    }
                    write_str(k, out);
                    out.push(':');
                    x.write(out);
                }
                out.push('}');
            }
        }
    }

    pub fn to_string(&self) -> String {
        let mut s = String::new();
        self.write(&mut s);
        s
    }

    pub fn parse(text: &str) -> Result<Json, String> {
        let mut p = Parser {
            b: text.as_bytes(),
            i: 0,
        };
        p.ws();
        let v = p.value()?;
        p.ws();
        if p.i != p.b.len() {
            return Err(format!("trailing data at {}", p.i));
        }
        Ok(v)
    }
}

fn write_str(s: &str, out: &mut String) {
    out.push('"');
    for c in s.chars() {
        match c {
            '"' => out.push_str("\\\""),
            '\\' => out.push_str("\\\\"),
            '\n' => out.push_str("\\n"),
            '\r' => out.push_str("\\r"),
            '\t' => out.push_str("\\t"),
            c if (c as u32) < 0x20 => {
                let _ = write!(out, "\\u{:04x}", c as u32);
            }
            c => out.push(c),
        }
    }
    out.push('"');
}

pub fn hex(bytes: &[u8]) -> String {
    const D: &[u8; 16] = b"0123456789abcdef";
    let mut s = String::with_capacity(bytes.len() * 2);
    for &b in bytes {
        s.push(D[(b >> 4) as usize] as char);
        s.push(D[(b & 15) as usize] as char);
    }
    s
}

pub fn unhex(s: &str) -> Option<Vec<u8>> {
    let b = s.as_bytes();
    if b.len() % 2 != 0 {
        return None;
    }
    let d = |c: u8| -> Option<u8> {
        match c {
            b'0'..=b'9' => Some(c - b'0'),
            b'a'..=b'f' => Some(c - b'a' + 10),
            b'A'..=b'F' => Some(c - b'A' + 10),
            _ => None,
        }
    };
    let mut v = Vec::with_capacity(b.len() / 2);
    for p in b.chunks(2) {
        v.push(d(p[0])? << 4 | d(p[1])?);
    }
    Some(v)
}

impl From<bool> for Json {
    fn from(v: bool) -> Json {
        Json::Bool(v)
    }
}
impl From<u64> for Json {
    fn from(v: u64) -> Json {
        Json::Int(v as i128)
    }
}
impl From<u32> for Json {
    fn from(v: u32) -> Json {
        Json::Int(v as i128)
    }
}
impl From<u8> for Json {
    fn from(v: u8) -> Json {
        Json::Int(v as i128)
    }
}
impl From<i64> for Json {
    fn from(v: i64) -> Json {
        Json::Int(v as i128)
    }
}
impl From<i32> for Json {
    fn from(v: i32) -> Json {
        Json::Int(v as i128)
    }
}
impl From<usize> for Json {
    fn from(v: usize) -> Json {
        Json::Int(v as i128)
    }
}
impl From<f64> for Json {
    fn from(v: f64) -> Json {
        Json::Float(v)
    }
}
impl From<&str> for Json {
    fn from(v: &str) -> Json {
        Json::Str(v.to_string())
    }
}
impl From<String> for Json {
    fn from(v: String) -> Json {
        Json::Str(v)
    }
}
impl<T: Into<Json>> From<Vec<T>> for Json {
    fn from(v: Vec<T>) -> Json {
        Json::Arr(v.into_iter().map(|x| x.into()).collect())
    }
}

struct Parser<'a> {
    b: &'a [u8],
    i: usize,
}

impl<'a> Parser<'a> {
    fn ws(&mut self) {
        while self.i < self.b.len() && matches!(self.b[self.i], b' ' | b'\n' | b'\r' | b'\t') {
            self.i += 1;
        }
    }
    fn value(&mut self) -> Result<Json, String> {
        if self.i >= self.b.len() {
            return Err("eof".into());
        }
        match self.b[self.i] {
            b'{' => {
                self.i += 1;
                let mut m = BTreeMap::new();
                self.ws();
                if self.peek() == Some(b'}') {
                    self.i += 1;
                    return Ok(Json::Obj(m));
                }
                loop {
                    self.ws();
                    let k = match self.value()? {
                        Json::Str(s) => s,
                        _ => return Err("key".into()),
                    };
                    self.ws();
                    if self.peek() != Some(b':') {
                        return Err("colon".into());
                    }
                    self.i += 1;
                    self.ws();
                    let v = self.value()?;
                    m.insert(k, v);
                    self.ws();
                    match self.peek() {
                        Some(b',') => self.i += 1,
                        Some(b'}') => {
                            self.i += 1;
                            return Ok(Json::Obj(m));
                        }
                        _ => return Err("obj".into()),
                    }
                }
            }
            b'[' => {
                self.i += 1;
                let mut v = Vec::new();
                self.ws();
                if self.peek() == Some(b']') {
                    self.i += 1;
                    return Ok(Json::Arr(v));
                }
                loop {
                    self.ws();
                    v.push(self.value()?);
                    self.ws();
                    match self.peek() {
                        Some(b',') => self.i += 1,
                        Some(b']') => {
                            self.i += 1;
                            return Ok(Json::Arr(v));
                        }
                        _ => return Err("arr".into()),
                    }
                }
            }
            b'"' => {
                self.i += 1;
                let mut s = Vec::new();
                loop {
                    if self.i >= self.b.len() {
                        return Err("str eof".into());
                    }
                    let c = self.b[self.i];
                    self.i += 1;
                    match c {
                        b'"' => break,
                        b'\\' => {
                            let e = *self.b.get(self.i).ok_or("esc")?;
                            self.i += 1;
                            match e {
                                b'n' => s.push(b'\n'),
                                b'r' => s.push(b'\r'),
                                b't' => s.push(b'\t'),
                                b'b' => s.push(8),
                                b'f' => s.push(12),
                                b'u' => {
                                    let h = std::str::from_utf8(&self.b[self.i..self.i + 4])
                                        .map_err(|_| "u")?;
                                    let cp = u32::from_str_radix(h, 16).map_err(|_| "u")?;
                                    self.i += 4;
                                    let ch = char::from_u32(cp).unwrap_or('?');
                                    let mut buf = [0u8; 4];
                                    s.extend_from_slice(ch.encode_utf8(&mut buf).as_bytes());
                                }
                                other => s.push(other),
                            }
                        }
                        c => s.push(c),
                    }
                }
                Ok(Json::Str(String::from_utf8_lossy(&s).into_owned()))
            }
            b't' => {
                self.i += 4;
                Ok(Json::Bool(true))
            }
            b'f' => {
                self.i += 5;
                Ok(Json::Bool(false))
            }
            b'n' => {
                self.i += 4;
                Ok(Json::Null)
            }
            _ => {
                let st = self.i;
                while self.i < self.b.len()
                    && matches!(self.b[self.i], b'-' | b'+' | b'.' | b'e' | b'E' | b'0'..=b'9')
                {
                    self.i += 1;
                }
                let t = std::str::from_utf8(&self.b[st..self.i]).map_err(|_| "num")?;
                if let Ok(i) = t.parse::<i128>() {
                    Ok(Json::Int(i))
                } else {
                    t.parse::<f64>()
                        .map(Json::Float)
                        .map_err(|_| format!("bad number {:?} at {}", t, st))
                }
            }
        }
    }
    fn peek(&self) -> Option<u8> {
        self.b.get(self.i).copied()
    }
}
