#!/usr/bin/env python3
"""Print a markdown summary of the evidence files (used for DESIGN.md §10)."""
import json, os, sys
ROOT = os.path.dirname(os.path.dirname(os.path.abspath(__file__)))
rows = []
for i in range(1, 19):
    pid = "C%02d" % i
    f = os.path.join(ROOT, "evidence", pid + ".json")
    if not os.path.exists(f):
        continue
    e = json.load(open(f))
    c = e["coverage"]
    tools = sorted({m["tool"] + ("/" + m["profile"] if m["tool"] == "native" else "") for m in c["monitors"]})
    cfgs = sorted({m["config"] for m in c["monitors"]})
    rows.append("| %s | %s | seed %s | %d | %d | %d configs: %s | %s | %s | %.0f s |" % (
        pid, e["tier"], e["seed"], c["evaluations"], c["distinct_nontrivial"], len(cfgs), ", ".join(cfgs[:6]) + (" ..." if len(cfgs) > 6 else ""),
        ", ".join(tools), c["verdict"], e["wall_s"]))
print("| id | tier | seed | evaluations | distinct non-trivial | configurations | tools | verdict | wall |")
print("|---|---|---|---|---|---|---|---|---|")
print("\n".join(rows))
