//! Reference models, written from the TLSH reference algorithm
//! (tlsh_impl.cpp / tlsh_util.cpp) and the property statements.  Shares no
//! code and no tables with the crate under test.

// ---------------------------------------------------------------------------
// Constants of the TLSH reference

/// The Pearson permutation `v_table[]` of tlsh_util.cpp (Pearson 1990).
pub const V: [u8; 256] = [
    1, 87, 49, 12, 176, 178, 102, 166, 121, 193, 6, 84, 249, 230, 44, 163, //
    14, 197, 213, 181, 161, 85, 218, 80, 64, 239, 24, 226, 236, 142, 38, 200, //
    110, 177, 104, 103, 141, 253, 255, 50, 77, 101, 81, 18, 45, 96, 31, 222, //
    25, 107, 190, 70, 86, 237, 240, 34, 72, 242, 20, 214, 244, 227, 149, 235, //
    97, 234, 57, 22, 60, 250, 82, 175, 208, 5, 127, 199, 111, 62, 135, 248, //
    174, 169, 211, 58, 66, 154, 106, 195, 245, 171, 17, 187, 182, 179, 0, 243, //
    132, 56, 148, 75, 128, 133, 158, 100, 130, 126, 91, 13, 153, 246, 216, 219, //
    119, 68, 223, 78, 83, 88, 201, 99, 122, 11, 92, 32, 136, 114, 52, 10, //
    138, 30, 48, 183, 156, 35, 61, 26, 143, 74, 251, 94, 129, 162, 63, 152, //
    170, 7, 115, 167, 241, 206, 3, 150, 55, 59, 151, 220, 90, 53, 23, 131, //
    125, 173, 15, 238, 79, 95, 89, 16, 105, 137, 225, 224, 217, 160, 37, 123, //
    118, 73, 2, 157, 46, 116, 9, 145, 134, 228, 207, 212, 202, 215, 69, 229, //
    27, 188, 67, 124, 168, 252, 42, 4, 29, 108, 21, 247, 19, 205, 39, 203, //
    233, 40, 186, 147, 198, 192, 155, 33, 164, 191, 98, 204, 165, 180, 117, 76, //
    140, 36, 210, 172, 41, 54, 159, 8, 185, 232, 113, 196, 231, 47, 146, 120, //
    51, 65, 28, 144, 254, 221, 93, 189, 194, 139, 112, 43, 71, 109, 184, 209,
];

/// `topval[]` of tlsh_util.cpp: inclusive upper bound of each length code.
pub const TOP: [u32; 170] = [
    1, 2, 3, 5, 7, 11, 17, 25, 38, 57, 86, 129, 194, 291, 437, 656, 854, 1110, 1443, 1876, 2439,
    3171, 3475, 3823, 4205, 4626, 5088, 5597, 6157, 6772, 7450, 8195, 9014, 9916, 10907, 11998,
    13198, 14518, 15970, 17567, 19323, 21256, 23382, 25720, 28292, 31121, 34233, 37656, 41422,
    45564, 50121, 55133, 60646, 66711, 73382, 80721, 88793, 97672, 107439, 118183, 130002,
    143002, 157302, 173032, 190335, 209369, 230306, 253337, 278670, 306538, 337191, 370911,
    408002, 448802, 493682, 543050, 597356, 657091, 722800, 795081, 874589, 962048, 1058252,
    1164078, 1280486, 1408534, 1549388, 1704327, 1874759, 2062236, 2268459, 2495305, 2744836,
    3019320, 3321252, 3653374, 4018711, 4420582, 4862641, 5348905, 5883796, 6472176, 7119394,
    7831333, 8614467, 9475909, 10423501, 11465851, 12612437, 13873681, 15261050, 16787154,
    18465870, 20312458, 22343706, 24578077, 27035886, 29739474, 32713425, 35984770, 39583245,
    43541573, 47895730, 52685306, 57953837, 63749221, 70124148, 77136564, 84850228, 93335252,
    102668779, 112935659, 124229227, 136652151, 150317384, 165349128, 181884040, 200072456,
    220079703, 242087671, 266296456, 292926096, 322218735, 354440623, 389884688, 428873168,
    471760495, 518936559, 570830240, 627913311, 690704607, 759775136, 835752671, 919327967,
    1011260767, 1112386880, 1223623232, 1345985727, 1480584256, 1628642751, 1791507135,
    1970657856, 2167723648, 2384496256, 2622945920, 2885240448, 3173764736, 3491141248,
    3840255616, 4224281216,
];

pub const MAX_DATA_LENGTH: u64 = 4_224_281_216;

/// Reference minimum lengths: (optimistic, conservative).
pub fn min_lengths(nb: usize) -> (u64, u64) {
    if nb == 48 {
        (10, 10)
    } else {
        (50, 256)
    }
}

// ---------------------------------------------------------------------------
// Options

/// Generator options as a 5-bit index:
/// bit0 conservative, bit1 integer Q ratio, bit2 allow small,
/// bit3 allow half-empty, bit4 allow three-quarter-empty.
#[derive(Clone, Copy, Debug, PartialEq, Eq)]
pub struct Opts(pub u8);

impl Opts {
    pub fn conservative(self) -> bool {
        self.0 & 1 != 0
    }
    pub fn intq(self) -> bool {
        self.0 & 2 != 0
    }
    pub fn small(self) -> bool {
        self.0 & 4 != 0
    }
    pub fn half(self) -> bool {
        self.0 & 8 != 0
    }
    pub fn quarter(self) -> bool {
        self.0 & 16 != 0
    }
    /// `self` is at most as permissive as `other` (same Q mode).
    pub fn le(self, other: Opts) -> bool {
        if self.intq() != other.intq() {
            return false;
        }
        // conservative is *less* permissive than optimistic
        let a = (!self.conservative(), self.small(), self.half() || self.quarter(), self.quarter());
        let b = (
            !other.conservative(),
            other.small(),
            other.half() || other.quarter(),
            other.quarter(),
        );
        (!a.0 || b.0) && (!a.1 || b.1) && (!a.2 || b.2) && (!a.3 || b.3)
    }
    pub fn describe(self) -> String {
        format!(
            "{}|{}|small={}|half={}|quarter={}",
            if self.conservative() { "conservative" } else { "optimistic" },
            if self.intq() { "intq" } else { "f32q" },
            self.small(),
            self.half(),
            self.quarter()
        )
    }
}

// ---------------------------------------------------------------------------
// Generation model

#[inline]
pub fn bmap(nb: usize, salt: u8, i: u8, j: u8, k: u8) -> u8 {
    let mut h = V[salt as usize];
    h = V[(h ^ i) as usize];
    h = V[(h ^ j) as usize];
    let r = V[(h ^ k) as usize];
    if nb == 48 {
        // fold only in the last step
        if r >= 240 {
            48
        } else {
            r % 48
        }
    } else {
        r
    }
}

#[derive(Clone, Debug, PartialEq, Eq)]
pub struct RefState {
    /// 48 or 256 (128-bucket variants use the 256 mapping and the first 128 buckets)
    pub nb_map: usize,
    pub b: [u32; 256],
    pub cs: [u8; 3],
    /// true number of bytes fed
    pub n: u64,
    /// the last (up to four) bytes fed, oldest first
    pub last: [u8; 4],
    pub nlast: usize,
}

#[derive(Clone, Copy, Debug, PartialEq, Eq)]
pub enum RefErr {
    TooLarge,
    TooSmall,
    ThreeQuarterEmpty,
    HalfEmpty,
}

impl RefErr {
    pub fn name(self) -> &'static str {
        match self {
            RefErr::TooLarge => "TooLargeInput",
            RefErr::TooSmall => "TooSmallInput",
            RefErr::ThreeQuarterEmpty => "BucketsAreThreeQuarterEmpty",
            RefErr::HalfEmpty => "BucketsAreHalfEmpty",
        }
    }
}

#[derive(Clone, Debug, PartialEq, Eq)]
pub struct RefHash {
    pub cs: Vec<u8>,
    pub lv: u8,
    pub q: u8,
    pub body: Vec<u8>,
}

impl RefHash {
    /// Binary form: checksum, length code, Q byte, body.
    pub fn bytes(&self) -> Vec<u8> {
        let mut v = self.cs.clone();
        v.push(self.lv);
        v.push(self.q);
        v.extend_from_slice(&self.body);
        v
    }
}

/// The reference leaves the float->unsigned conversion undefined when the
/// quotient does not fit; such cases are excluded from comparison.
#[derive(Clone, Copy, Debug, PartialEq, Eq)]
pub enum QOut {
    Defined(u8, u8),
    ReferenceUndefined,
}

impl RefState {
    pub fn new(nb_map: usize) -> RefState {
        assert!(nb_map == 48 || nb_map == 256);
        RefState {
            nb_map,
            b: [0; 256],
            cs: [0; 3],
            n: 0,
            last: [0; 4],
            nlast: 0,
        }
    }

    pub fn update(&mut self, data: &[u8]) {
        let nb = self.nb_map;
        for &a0 in data {
            if self.nlast == 4 {
                let (a4, a3, a2, a1) = (self.last[0], self.last[1], self.last[2], self.last[3]);
                self.cs[0] = bmap(nb, 0, a0, a1, self.cs[0]);
                self.cs[1] = bmap(256, self.cs[0], a0, a1, self.cs[1]);
                self.cs[2] = bmap(256, self.cs[1], a0, a1, self.cs[2]);
                for (salt, x, y) in [
                    (2u8, a1, a2),
                    (3, a1, a3),
                    (5, a2, a3),
                    (7, a2, a4),
                    (11, a1, a4),
                    (13, a3, a4),
                ] {
                    let r = bmap(nb, salt, a0, x, y) as usize;
                    self.b[r] = self.b[r].wrapping_add(1);
                }
                self.last = [a3, a2, a1, a0];
            } else {
                self.last[self.nlast] = a0;
                self.nlast += 1;
            }
            self.n += 1;
        }
    }

    /// Q ratios for quartiles (q1,q2,q3), q3 != 0.
    pub fn qratios(q1: u32, q2: u32, q3: u32, intq: bool) -> QOut {
        if intq {
            let r1 = ((q1 as u64 * 100) / q3 as u64) % 16;
            let r2 = ((q2 as u64 * 100) / q3 as u64) % 16;
            QOut::Defined(r1 as u8, r2 as u8)
        } else {
            let f = |q: u32| -> Option<u8> {
                // (unsigned int)((float)(q*100) / (float)q3) % 16, q*100 in 32-bit unsigned
                let num = (q.wrapping_mul(100) as f32) as f64;
                let den = (q3 as f32) as f64;
                let quot = (num / den) as f32; // correctly rounded float division
                let t = quot.trunc() as f64;
                if !(0.0..4294967296.0).contains(&t) {
                    None
                } else {
                    Some(((t as u64) % 16) as u8)
                }
            };
            match (f(q1), f(q2)) {
                (Some(a), Some(b)) => QOut::Defined(a, b),
                _ => QOut::ReferenceUndefined,
            }
        }
    }

    /// Finalize for a variant with `nb` buckets (48 | 128 | 256) and `ck` checksum bytes.
    /// Returns `None` when the reference result is undefined (see [`QOut`]).
    pub fn finalize(&self, nb: usize, ck: usize, o: Opts) -> Option<Result<RefHash, RefErr>> {
        assert!(nb == 48 && self.nb_map == 48 || nb != 48 && self.nb_map == 256);
        let n = self.n;
        let (mn, mc) = min_lengths(nb);
        if n > MAX_DATA_LENGTH {
            return Some(Err(RefErr::TooLarge));
        }
        if n < (if o.conservative() { mc } else { mn }) && !o.small() {
            return Some(Err(RefErr::TooSmall));
        }
        let eff = &self.b[..nb];
        let mut s: Vec<u32> = eff.to_vec();
        s.sort_unstable();
        let (mut q1, mut q2, mut q3) = (s[nb / 4 - 1], s[nb / 2 - 1], s[nb - nb / 4 - 1]);
        if q3 == 0 {
            if !o.quarter() {
                return Some(Err(RefErr::ThreeQuarterEmpty));
            }
            q1 = 1;
            q2 = 1;
            q3 = 1;
        }
        let nz = eff.iter().filter(|&&x| x != 0).count();
        let min_nz = if nb == 48 { 18 } else { nb / 2 + 1 };
        if nz < min_nz && !(o.half() || o.quarter()) {
            return Some(Err(RefErr::HalfEmpty));
        }
        let (r1, r2) = match Self::qratios(q1, q2, q3, o.intq()) {
            QOut::Defined(a, b) => (a, b),
            QOut::ReferenceUndefined => return None,
        };
        let lv = length_code(n).expect("n <= MAX") as u8;
        Some(Ok(RefHash {
            cs: self.cs[..ck].to_vec(),
            lv,
            q: r1 | (r2 << 4),
            body: aggregate(eff, q1, q2, q3),
        }))
    }
}

/// Buckets -> body: dibit by strict '>', first bucket in the low bits of the last byte.
pub fn aggregate(eff: &[u32], q1: u32, q2: u32, q3: u32) -> Vec<u8> {
    let nb = eff.len();
    let mut body = vec![0u8; nb / 4];
    for (i, &v) in eff.iter().enumerate() {
        let d: u8 = if v > q3 {
            3
        } else if v > q2 {
            2
        } else if v > q1 {
            1
        } else {
            0
        };
        body[nb / 4 - 1 - i / 4] |= d << (2 * (i % 4));
    }
    body
}

// ---------------------------------------------------------------------------
// Length model

/// Length code by linear scan (`None` above the maximum).
pub fn length_code(n: u64) -> Option<usize> {
    TOP.iter().position(|&t| n <= t as u64)
}

/// Inclusive range of a code.
pub fn length_range(code: usize) -> Option<(u64, u64)> {
    if code >= 170 {
        None
    } else if code == 0 {
        Some((0, TOP[0] as u64))
    } else {
        Some((TOP[code - 1] as u64 + 1, TOP[code] as u64))
    }
}

/// TLSH's original closed form `l_capturing` (logs of base 1.5 / 1.3 / 1.1);
/// float-inexact at range edges, used at range midpoints only.
pub fn length_code_closed_form(len: u64) -> usize {
    let l = len as f64;
    let i = if len <= 656 {
        (l.ln() / 1.5f64.ln()).floor()
    } else if len <= 3199 {
        (l.ln() / 1.3f64.ln() - 8.72777).floor()
    } else {
        (l.ln() / 1.1f64.ln() - 62.5472).floor()
    };
    (i as i64).max(0) as usize & 0xff
}

// ---------------------------------------------------------------------------
// Distance model (C02)

#[inline]
pub fn ring_diff(x: u32, y: u32, m: u32) -> u32 {
    let d = if x >= y { x - y } else { y - x };
    d.min(m - d)
}

pub fn dist_body(a: &[u8], b: &[u8]) -> u32 {
    let mut t = 0;
    for (&x, &y) in a.iter().zip(b.iter()) {
        for k in 0..4 {
            let dx = ((x >> (2 * k)) & 3) as i32;
            let dy = ((y >> (2 * k)) & 3) as i32;
            let d = (dx - dy).unsigned_abs();
            t += if d == 3 { 6 } else { d };
        }
    }
    t
}

pub fn dist_checksum(a: &[u8], b: &[u8]) -> u32 {
    a.iter().zip(b.iter()).filter(|(x, y)| x != y).count() as u32
}

pub fn dist_q(a: u8, b: u8) -> u32 {
    let f = |x: u8, y: u8| {
        let d = ring_diff(x as u32, y as u32, 16);
        if d <= 1 {
            d
        } else {
            (d - 1) * 12
        }
    };
    f(a & 15, b & 15) + f(a >> 4, b >> 4)
}

pub fn dist_len(a: u8, b: u8) -> u32 {
    let d = ring_diff(a as u32, b as u32, 256);
    if d <= 1 {
        d
    } else {
        d * 12
    }
}

/// Distance of two binary forms (checksum[ck], length, q, body).
pub fn distance(a: &[u8], b: &[u8], ck: usize, no_length: bool) -> u32 {
    dist_body(&a[ck + 2..], &b[ck + 2..])
        + dist_checksum(&a[..ck], &b[..ck])
        + dist_q(a[ck + 1], b[ck + 1])
        + if no_length { 0 } else { dist_len(a[ck], b[ck]) }
}

pub fn max_distance(nb: usize, ck: usize, no_length: bool) -> u32 {
    (nb as u32) * 6 + ck as u32 + 2 * 7 * 12 + if no_length { 0 } else { 128 * 12 }
}

// ---------------------------------------------------------------------------
// Codec model (C04/C05/C06/C15)

pub const HEXU: &[u8; 16] = b"0123456789ABCDEF";

#[inline]
pub fn swap(x: u8) -> u8 {
    (x << 4) | (x >> 4)
}

/// Text form of the binary form `b` with `ck` checksum bytes.
pub fn encode_text(b: &[u8], ck: usize, with_prefix: bool) -> Vec<u8> {
    let mut out = Vec::with_capacity(b.len() * 2 + 2);
    if with_prefix {
        out.extend_from_slice(b"T1");
    }
    for (i, &x) in b.iter().enumerate() {
        let y = if i < ck + 2 { swap(x) } else { x };
        out.push(HEXU[(y >> 4) as usize]);
        out.push(HEXU[(y & 15) as usize]);
    }
    out
}

#[inline]
pub fn hexval(c: u8) -> Option<u8> {
    match c {
        b'0'..=b'9' => Some(c - b'0'),
        b'A'..=b'F' => Some(c - b'A' + 10),
        b'a'..=b'f' => Some(c - b'a' + 10),
        _ => None,
    }
}

#[derive(Clone, Copy, Debug, PartialEq, Eq, PartialOrd, Ord)]
pub enum PErr {
    Length,
    Prefix,
    Character,
    Checksum,
    LengthCode,
}

impl PErr {
    pub fn name(self) -> &'static str {
        match self {
            PErr::Length => "InvalidStringLength",
            PErr::Prefix => "InvalidPrefix",
            PErr::Character => "InvalidCharacter",
            PErr::Checksum => "InvalidChecksum",
            PErr::LengthCode => "LengthIsTooLarge",
        }
    }
}

/// Prefix mode: 0 = None (auto by length), 1 = Some(Empty), 2 = Some(WithVersion).
///
/// Returns `Ok(binary form)` or the *set* of errors that apply to the input
/// (the property does not fix precedence among simultaneously applicable
/// errors, except that a wrong length is always reported as a length error).
pub fn decode_text(
    s: &[u8],
    size: usize,
    ck: usize,
    nb: usize,
    mode: u8,
    strict: bool,
) -> Result<Vec<u8>, Vec<PErr>> {
    let len_noprefix = size * 2;
    let len_prefix = len_noprefix + 2;
    let with_prefix = match mode {
        0 => {
            if s.len() == len_noprefix {
                false
            } else if s.len() == len_prefix {
                true
            } else {
                return Err(vec![PErr::Length]);
            }
        }
        1 => {
            if s.len() != len_noprefix {
                return Err(vec![PErr::Length]);
            }
            false
        }
        _ => {
            if s.len() != len_prefix {
                return Err(vec![PErr::Length]);
            }
            true
        }
    };
    let mut errs = Vec::new();
    let digits = if with_prefix {
        if &s[..2] != b"T1" {
            errs.push(PErr::Prefix);
        }
        &s[2..]
    } else {
        s
    };
    let mut out = vec![0u8; size];
    let mut bad_char = false;
    let mut field_ok = vec![true; size];
    for i in 0..size {
        match (hexval(digits[2 * i]), hexval(digits[2 * i + 1])) {
            (Some(h), Some(l)) => {
                let v = (h << 4) | l;
                out[i] = if i < ck + 2 { swap(v) } else { v };
            }
            _ => {
                bad_char = true;
                field_ok[i] = false;
            }
        }
    }
    if bad_char {
        errs.push(PErr::Character);
    }
    if strict {
        // a gate applies when its own field decoded
        if nb == 48 && field_ok[0] && out[0] > 48 {
            errs.push(PErr::Checksum);
        }
        if field_ok[ck] && out[ck] >= 170 {
            errs.push(PErr::LengthCode);
        }
    }
    if errs.is_empty() {
        Ok(out)
    } else {
        Err(errs)
    }
}

/// Binary-form parser model.
pub fn decode_bytes(b: &[u8], size: usize, ck: usize, nb: usize, strict: bool) -> Result<Vec<u8>, Vec<PErr>> {
    if b.len() != size {
        return Err(vec![PErr::Length]);
    }
    let mut errs = Vec::new();
    if strict {
        if nb == 48 && b[0] > 48 {
            errs.push(PErr::Checksum);
        }
        if b[ck] >= 170 {
            errs.push(PErr::LengthCode);
        }
    }
    if errs.is_empty() {
        Ok(b.to_vec())
    } else {
        Err(errs)
    }
}

// ---------------------------------------------------------------------------
// Self checks of the oracle (run by `probe selftest` and at the start of
// monitors that depend on it).

pub fn selfcheck() -> Result<(), String> {
    // permutation
    let mut seen = [false; 256];
    for &v in V.iter() {
        if seen[v as usize] {
            return Err(format!("V is not a permutation (dup {})", v));
        }
        seen[v as usize] = true;
    }
    // TOP strictly increasing, growth ratios of the three regimes
    for i in 1..170 {
        if TOP[i] <= TOP[i - 1] {
            return Err(format!("TOP not increasing at {}", i));
        }
    }
    for i in 0..170usize {
        let (lo, hi) = length_range(i).unwrap();
        let mid = (lo + hi) / 2;
        if hi - lo >= 2 && i > 0 {
            let c = length_code_closed_form(mid);
            if c != i {
                return Err(format!("closed form disagrees at code {} mid {} -> {}", i, mid, c));
            }
        }
    }
    if TOP[169] as u64 != MAX_DATA_LENGTH {
        return Err("MAX".into());
    }
    // distance model laws on a few values
    for a in 0..=255u8 {
        for b in 0..=255u8 {
            if dist_q(a, b) != dist_q(b, a) || dist_len(a, b) != dist_len(b, a) {
                return Err("asymmetric".into());
            }
            if dist_q(a, b) > 2 * 7 * 12 || dist_len(a, b) > 128 * 12 {
                return Err("bound".into());
            }
        }
        if dist_q(a, a) != 0 || dist_len(a, a) != 0 {
            return Err("diag".into());
        }
    }
    Ok(())
}

// ---------------------------------------------------------------------------
// Known-answer vectors (official TLSH values quoted in the repository's tests
// and documentation).  They validate the *models*, without the crate.

pub const LOREM: &[u8] = b"Lorem ipsum dolor sit amet, consectetur adipiscing elit, sed do eiusmod tempor incididunt ut labore et dolore magna aliqua. Ut enim ad minim veniam, quis nostrud exercitation ullamco laboris nisi ut aliquip ex ea commodo consequat. Duis aute irure dolor in reprehenderit in voluptate velit esse cillum dolore eu fugiat nulla pariatur. Excepteur sint occaecat cupidatat non proident, sunt in culpa qui officia deserunt mollit anim id est laborum.";

/// Model hash of `data` as text, or the rejection name.
pub fn model_text(data: &[u8], nb: usize, ck: usize, o: Opts) -> String {
    let mut st = RefState::new(if nb == 48 { 48 } else { 256 });
    st.update(data);
    match st.finalize(nb, ck, o) {
        None => "reference-undefined".into(),
        Some(Err(e)) => e.name().into(),
        Some(Ok(h)) => String::from_utf8(encode_text(&h.bytes(), ck, true)).unwrap(),
    }
}

pub fn katcheck() -> Result<usize, String> {
    let mut n = 0;
    let mut expect = |what: &str, got: String, want: &str| -> Result<(), String> {
        n += 1;
        if got == want {
            Ok(())
        } else {
            Err(format!("KAT {}: model gives {} but the official value is {}", what, got, want))
        }
    };
    // default options of the crate: optimistic, f32 Q ratios, nothing waived
    let d = Opts(0);
    expect("lorem/Short", model_text(LOREM, 48, 1, d), "T1E1F029B2FCAA4D5FE04846105FA5E2")?;
    expect("lorem/Normal", model_text(LOREM, 128, 1, d), "T1DCF0DC36520C1B007FD32079B226559FD998A0200725E75AFCEAC99F5881184A4B1AA2")?;
    expect("lorem/Normal3", model_text(LOREM, 128, 3, d), "T1DC33D4F0DC36520C1B007FD32079B226559FD998A0200725E75AFCEAC99F5881184A4B1AA2")?;
    expect("lorem/Long", model_text(LOREM, 256, 1, d), "T1DCF0DCA405C02AF1D4860CA5894A05301D60E9915198060A7044C608A1E89A11BD2B2836520C1B007FD32079B226559FD998A0200725E75AFCEAC99F5881184A4B1AA2")?;
    expect("lorem/Long3", model_text(LOREM, 256, 3, d), "T1DC33D4F0DCA405C02AF1D4860CA5894A05301D60E9915198060A7044C608A1E89A11BD2B2836520C1B007FD32079B226559FD998A0200725E75AFCEAC99F5881184A4B1AA2")?;
    expect("lorem/Normal/intq", model_text(LOREM, 128, 1, Opts(2)), "T1DCF0DC36520C1B007FD32079B226559FD998A0200725E75AFCEAC99F5881184A4B1AA2")?;
    expect("hello/Short", model_text(b"Hello, World!", 48, 1, d), "T1E16004017D3551777571D55C005CC5")?;
    // TLSH timing_unittest vectors (1 MB)
    let v1: Vec<u8> = (b'A'..=b'Z').cycle().take(1_000_000 - 1).chain([0]).collect();
    expect("timing_unittest/1", model_text(&v1, 128, 1, d), "T1A12500088C838B0A0F0EC3C0ACAB82F3B8228B0308CFA302338C0F0AE2C24F28000008")?;
    let v2: Vec<u8> = (b' '..(b' ' + 90)).cycle().take(1_000_000 - 1).chain([0]).collect();
    expect("timing_unittest/2", model_text(&v2, 128, 1, d), "T129251210F4C18D0A5F0661C4F64D905B585253A3024F022323E5074CC5601904886D1C")?;
    // documentation examples: rejection kinds, their order and the permissive options
    let lovak = b"Lovak won the squad prize cup for sixty big jumps.";
    expect("lovak", model_text(lovak, 128, 1, d), "T14A90024954691E114404124180D942C1450F8423775ADE1510211420456593621A8173")?;
    expect("lovak/conservative", model_text(lovak, 128, 1, Opts(1)), "TooSmallInput")?;
    let fox = b"The quick brown fox jumps over the lazy dog.";
    expect("fox", model_text(fox, 128, 1, d), "TooSmallInput")?;
    expect("fox/small", model_text(fox, 128, 1, Opts(4)), "T19E90024A21181294648A1888438D94B292C8C510612114116430600218082219C98551")?;
    let half = b"ABCDEFGHIJKLMNOPQRSTABCDEFGHIJKLMNOPQRSTABCDEFGHIJ";
    expect("half", model_text(half, 128, 1, d), "BucketsAreHalfEmpty")?;
    expect("half/allow", model_text(half, 128, 1, Opts(8)), "T1609000080C838F2A0F2C82C0ECA282F33808838B00CE0300228C2F80C8800E08800000")?;
    let quarter = b"ABCDEABCDEABCDEABCDEABCDEABCDEABCDEABCDEABCDEABCDE";
    expect("quarter/half-only", model_text(quarter, 128, 1, Opts(8)), "BucketsAreThreeQuarterEmpty")?;
    expect("quarter/allow", model_text(quarter, 128, 1, Opts(16)), "T14590440C330003C00C0033000000C300F000C00300C030000000C3000000000000C000")?;
    // distances quoted from the official implementation / documentation
    let dist = |a: &str, b: &str, size: usize, ck: usize, nb: usize| -> Result<u32, String> {
        let x = decode_text(a.as_bytes(), size, ck, nb, 0, false).map_err(|e| format!("{:?}", e))?;
        let y = decode_text(b.as_bytes(), size, ck, nb, 0, false).map_err(|e| format!("{:?}", e))?;
        Ok(distance(&x, &y, ck, false))
    };
    expect(
        "distance/timing_unittest",
        dist("T1A12500088C838B0A0F0EC3C0ACAB82F3B8228B0308CFA302338C0F0AE2C24F28000008", "T129251210F4C18D0A5F0661C4F64D905B585253A3024F022323E5074CC5601904886D1C", 35, 1, 128)?.to_string(),
        "138",
    )?;
    expect(
        "distance/rustc-normal",
        dist("T12AD5BE86FFE41D17CC268876A9AE472077B2B0032716DBAF1849A7647DDB7C0DF16488", "T1EDD5BE96FFE41D1BCC268C7699AE4720B7B2A0032716DBAF1848A7647DD77C0DF16488", 35, 1, 128)?.to_string(),
        "9",
    )?;
    expect(
        "distance/rustc-short",
        dist("T140D5F17F44F8AB007AE2AC46E515DC", "T140D5F17F44FCAB007AE2A846E515DC", 15, 1, 48)?.to_string(),
        "2",
    )?;
    // the 384-byte executable shipped with the repository (if present)
    if let Ok(exe) = std::fs::read("/repo/fast-tlsh/data/examples/smallexe.exe") {
        expect("smallexe/Short", model_text(&exe, 48, 1, d), "T140E0483A5DFC1B073D86A4A2C55A43")?;
        expect("smallexe/Normal", model_text(&exe, 128, 1, d), "T1FFE04C037F895471D42E5530499E47473757E5E456D28B13ED1944654C8534C7CE9E01")?;
    }
    Ok(n)
}
