"""Which monitors run in which configuration / tool for each property and tier."""

import os
import sys

import configs


class Step:
    def __init__(self, monitor, config="default", profile="rel", tool="native", shards=16, scale=1.0,
                 params=None, timeout=None, crash_is_violation=False, miri_flags="", env=None):
        self.monitor = monitor
        self.config = config
        self.profile = profile
        self.tool = tool
        self.shards = shards
        self.scale = scale
        self.params = dict(params or {})
        self.timeout = timeout or (3600 if tool in ("native",) else 7200)
        self.crash_is_violation = crash_is_violation or tool in ("asan", "tsan", "miri", "valgrind")
        self.miri_flags = miri_flags
        self.env = dict(env or {})

    def describe(self):
        return "%s[%s/%s/%s]" % (self.monitor, self.config, self.profile, self.tool)


# Number of aggregation / distance back ends each configuration must expose.
AGG_BACKENDS = {
    "default": 5, "dyn-nohex": 5, "unsafe": 5,
    "static-sse2": 3, "static-sse41": 3, "static-avx2": 3, "unsafe-static-avx2": 3, "unsafe-static-sse41": 3,
}
DIST_BACKENDS = {
    "default": 6, "dyn-nohex": 6, "unsafe": 6,
    "static-sse2": 4, "static-sse41": 4, "static-avx2": 4, "unsafe-static-avx2": 4, "unsafe-static-sse41": 4,
}

ASSUMPTIONS = {
    "C01": [
        "byte strings, generator states and threshold triples are sampled (boundary-biased), not enumerated; the bucket mappings are enumerated (completely in the thorough tier)",
        "the reference model (harness/src/oracle.rs) is taken to be the TLSH reference algorithm; it is validated against the official known-answer vectors shipped in the repository and against an independent Python model (oracle-py/ref.py)",
        "the integer Q-ratio reference is computed in 64-bit; inputs on which the reference's float->unsigned conversion is undefined are skipped and counted",
        "NEON / wasm-simd128 / core::simd back ends cannot be executed in this sandbox",
    ],
}

EXHAUSTIVE_WHOLE = {"C09": True}


def build_failure_is_violation(prop):
    return prop in ("C07", "C18")


def plan(prop, tier):
    q = tier == "quick"
    S = Step
    steps = []
    if prop == "C01":
        cfgs = ["default", "naive", "lowmem-a", "static-sse41"] if q else \
            ["default", "naive", "optdef", "embedded", "lowmem-a", "lowmem-b", "lowmem-c", "dyn-nohex",
             "static-sse2", "static-sse41", "static-avx2", "unsafe", "unsafe-naive"]
        for c in cfgs:
            sc = 1.0 if c in ("default", "naive") else 0.25
            steps.append(S("c01-api", c, shards=16 if c in ("default", "naive") else 4, scale=sc))
            steps.append(S("c01-state", c, shards=8 if c in ("default", "naive") else 4, scale=sc))
            steps.append(S("c01-agg", c, shards=4, scale=sc,
                           params={"expect_agg_backends": AGG_BACKENDS.get(c, 2)}))
        steps.append(S("c01-map", "default", shards=16))
        steps.append(S("c01-map", "naive", shards=16))
        for c in ["default", "naive"]:
            steps.append(S("c01-api", c, profile="dbg", shards=8, scale=0.25))
            steps.append(S("c01-state", c, profile="dbg", shards=4, scale=0.25))
        return steps
    return steps


def post_process(prop, tier, steps, results, monitors_out, run_root):
    return None


def replay_special(prop, rp, path):
    return None


def setup(build):
    """Build every configuration the quick tiers need (warm caches)."""
    import concurrent.futures
    keys = []
    for prop in ["C%02d" % i for i in range(1, 19)]:
        for s in plan(prop, "quick"):
            k = (s.config, s.profile, s.tool)
            if k not in keys:
                keys.append(k)
    failed = 0
    with concurrent.futures.ThreadPoolExecutor(max_workers=6) as ex:
        futs = {ex.submit(build, *k): k for k in keys}
        for fut in concurrent.futures.as_completed(futs):
            try:
                fut.result()
            except Exception as e:  # a configuration that does not build is reported by the checks
                print("setup: %s" % e, file=sys.stderr)
                failed += 1
    print("setup: %d configurations built, %d failed" % (len(keys) - failed, failed))
    return 0
