//! C10 — published length limits are enforced; permissive options only widen acceptance.

use crate::gen;
use crate::json::Json;
use crate::oracle::{Opts, MAX_DATA_LENGTH};
use crate::report::{guard, Report};
use crate::rng::fingerprint;
use crate::variant::{gen_err_name, options, Parts, Variant};
use crate::{all_variants, Ctx};
use tlsh::length::DataLengthValidity;
use tlsh::verif::GeneratorState;
use tlsh::{DataLengthProcessingMode, GeneratorError, GeneratorErrorCategory, GeneratorType};

fn outcomes<V: Variant>(g: &V::G) -> Vec<Result<Parts, GeneratorError>> {
    (0..32u8)
        .map(|o| {
            g.finalize_with_options(&options(Opts(o)))
                .map(|h| V::parts(&h))
        })
        .collect()
}


fn show(r: &Result<Parts, GeneratorError>) -> String {
    match r {
        Ok(p) => format!("Ok({})", crate::json::hex(&p.bytes())),
        Err(e) => gen_err_name(e).to_string(),
    }
}

/// Check the laws on the 32 outcomes of a generator that holds `n` bytes.
fn check_outcomes<V: Variant>(
    n: u64,
    outs: &[Result<Parts, GeneratorError>],
    case: &dyn Fn() -> Json,
    rep: &mut Report,
) {
    // (1) lattice
    for o in 0..32u8 {
        if let Ok(h) = &outs[o as usize] {
            for o2 in 0..32u8 {
                if o2 != o && Opts(o).le(Opts(o2)) {
                    rep.eval(1);
                    match &outs[o2 as usize] {
                        Ok(h2) if h2 == h => {}
                        other => rep.violation(
                            &format!("lattice|{}|{}", V::NAME, if other.is_ok() { "hash-changed" } else { "success-became-failure" }),
                            &format!(
                                "{} bytes: finalize({}) = {} but the more permissive finalize({}) = {}",
                                n,
                                Opts(o).describe(),
                                show(&outs[o as usize]),
                                Opts(o2).describe(),
                                show(other)
                            ),
                            case().with("options", o).with("options_more_permissive", o2),
                        ),
                    }
                }
            }
        }
    }
    // (2) length errors exactly as published
    let len32 = if n < (1 << 32) { n as u32 } else { u32::MAX };
    let validity = V::validity(len32);
    for o in 0..32u8 {
        let mode = if Opts(o).conservative() {
            DataLengthProcessingMode::Conservative
        } else {
            DataLengthProcessingMode::Optimistic
        };
        let too_large = validity == DataLengthValidity::TooLarge;
        let expect_len_err = validity.is_err_on(mode) && !(Opts(o).small() && !too_large);
        let got = &outs[o as usize];
        let got_len_err = matches!(got, Err(e) if e.category() == GeneratorErrorCategory::DataLength);
        rep.eval(1);
        if expect_len_err != got_len_err {
            rep.violation(
                &format!("length-gate|{}|{}", V::NAME, if expect_len_err { "missing-length-error" } else { "spurious-length-error" }),
                &format!(
                    "{} bytes (published validity {:?}), options {}: finalize = {}",
                    n,
                    validity,
                    Opts(o).describe(),
                    show(got)
                ),
                case().with("options", o),
            );
        } else if got_len_err {
            let want = if too_large { "TooLargeInput" } else { "TooSmallInput" };
            if let Err(e) = got {
                if gen_err_name(e) != want {
                    rep.violation(
                        &format!("length-gate|{}|wrong-kind", V::NAME),
                        &format!("{} bytes: length error {} where {} applies", n, gen_err_name(e), want),
                        case().with("options", o),
                    );
                }
            }
        }
        // (4) quarter implies half
        if Opts(o).quarter() && !Opts(o).half() {
            rep.eval(1);
            if outs[o as usize] != outs[(o | 8) as usize] {
                rep.violation(
                    &format!("quarter-implies-half|{}", V::NAME),
                    &format!(
                        "{} bytes: finalize({}) = {} differs from the same with allow-half = {}",
                        n,
                        Opts(o).describe(),
                        show(&outs[o as usize]),
                        show(&outs[(o | 8) as usize])
                    ),
                    case().with("options", o),
                );
            }
        }
    }
    // coverage: did the flags matter?
    let kinds: std::collections::BTreeSet<&'static str> = outs
        .iter()
        .map(|r| match r {
            Ok(_) => "Ok",
            Err(e) => gen_err_name(e),
        })
        .collect();
    for k in &kinds {
        rep.count(&format!("{}:{}", V::NAME, k), 1);
    }
    for (flag, name) in [(1u8, "mode"), (4, "small"), (8, "half"), (16, "quarter")] {
        let changed = (0..32u8).any(|o| o & flag == 0 && outs[o as usize].is_ok() != outs[(o | flag) as usize].is_ok());
        if changed {
            rep.count(&format!("flag_changed_outcome:{}", name), 1);
        }
    }
}

fn data_one<V: Variant>(data: &[u8], rep: &mut Report) {
    let case = || {
        Json::obj()
            .with("variant", V::NAME)
            .with("data", Json::hex(data))
    };
    let r = guard(|| {
        let mut g = V::new_gen();
        g.update(data);
        outcomes::<V>(&g)
    });
    match r {
        Err(p) => rep.violation(
            &format!("lattice|{}|panic", V::NAME),
            &format!("panic: {} at {}", p.message, p.location),
            case(),
        ),
        Ok(outs) => check_outcomes::<V>(data.len() as u64, &outs, &case, rep),
    }
}

fn state_one<V: Variant>(st: &GeneratorState, rep: &mut Report) {
    let case = || {
        Json::obj()
            .with("variant", V::NAME)
            .with("state", super::c01::state_json(st))
    };
    let r = guard(|| outcomes::<V>(&V::gen_from_state(st)));
    match r {
        Err(p) => rep.violation(
            &format!("lattice|{}|panic", V::NAME),
            &format!("panic: {} at {}", p.message, p.location),
            case(),
        ),
        Ok(outs) => check_outcomes::<V>(st.len as u64 + st.tail_len as u64, &outs, &case, rep),
    }
}

/// The constants the generator publishes are the ones the validity classification uses.
fn constants_one<V: Variant>(rep: &mut Report) {
    let (min, minc, max) = (
        <V::G as GeneratorType>::MIN,
        <V::G as GeneratorType>::MIN_CONSERVATIVE,
        <V::G as GeneratorType>::MAX,
    );
    let mut bad = |what: String| {
        rep.violation(
            &format!("constants|{}", V::NAME),
            &what,
            Json::obj().with("variant", V::NAME).with("constants", true),
        );
    };
    use DataLengthValidity::*;
    let checks: Vec<(u32, DataLengthValidity)> = vec![
        (min.wrapping_sub(1), TooSmall),
        (min, if min < minc { ValidWhenOptimistic } else { Valid }),
        (minc - 1, if min < minc { ValidWhenOptimistic } else { TooSmall }),
        (minc, Valid),
        (max, Valid),
        (max.wrapping_add(1), TooLarge),
        (u32::MAX, TooLarge),
        (0, TooSmall),
    ];
    for (len, want) in checks {
        let got = V::validity(len);
        if got != want {
            bad(format!(
                "DataLengthValidity::new({}) = {:?}, generator constants (MIN {}, MIN_CONSERVATIVE {}, MAX {}) imply {:?}",
                len, got, min, minc, max, want
            ));
        }
    }
    if max as u64 != MAX_DATA_LENGTH {
        bad(format!("MAX = {} (documented maximum is {})", max, MAX_DATA_LENGTH));
    }
    if !(TooSmall.is_err() && TooLarge.is_err() && !Valid.is_err() && !ValidWhenOptimistic.is_err()) {
        bad("DataLengthValidity::is_err() is inconsistent".into());
    }
    rep.eval(12);
}

pub fn run(ctx: &Ctx, rep: &mut Report) {
    rep.rule = "inputs concentrated where options matter (lengths around MIN / MIN_CONSERVATIVE, sparse / periodic / few-symbol contents) plus injected states around MAX, x 5 variants; all 32 option settings evaluated, every comparable pair of the permissiveness order checked, length errors compared with the published DataLengthValidity classification; non-trivial = the 32 outcomes are not all equal; distinct by fingerprint of the input".into();
    all_variants!(constants_one, rep);
    let n = ctx.n(30_000, 1_500_000);
    let mut prev: Option<Vec<u8>> = None;
    for i in 0..n {
        let mut rng = ctx.rng("c10", i);
        let len = match rng.below(10) {
            0..=3 => {
                let t = *rng.pick(&[10usize, 50, 128, 256, 18, 65, 129]);
                (t as i64 + rng.range(0, 6) as i64 - 3).max(0) as usize
            }
            4..=6 => rng.range(5, 400) as usize,
            _ => gen::byte_length(&mut rng, false).min(6000),
        };
        let (data, _) = gen::content(&mut rng, len, prev.as_deref());
        let before = rep.counters.get("flag_changed_outcome:small").copied().unwrap_or(0)
            + rep.counters.get("flag_changed_outcome:half").copied().unwrap_or(0)
            + rep.counters.get("flag_changed_outcome:quarter").copied().unwrap_or(0)
            + rep.counters.get("flag_changed_outcome:mode").copied().unwrap_or(0);
        all_variants!(data_one, &data, rep);
        let after = rep.counters.get("flag_changed_outcome:small").copied().unwrap_or(0)
            + rep.counters.get("flag_changed_outcome:half").copied().unwrap_or(0)
            + rep.counters.get("flag_changed_outcome:quarter").copied().unwrap_or(0)
            + rep.counters.get("flag_changed_outcome:mode").copied().unwrap_or(0);
        if after > before {
            rep.distinct(fingerprint(&data));
            if rep.want_sample() && data.len() < 120 {
                rep.sample(Json::obj().with("data", Json::hex(&data)).with("note", "some flag changes the outcome"));
            }
        }
        prev = Some(data);
    }
    // the large side through injected states
    let m = ctx.n(2_000, 100_000);
    for i in 0..m {
        let mut rng = ctx.rng("c10-state", i);
        let (mut st, _) = gen::state(&mut rng);
        st.len = match rng.below(4) {
            0 => (MAX_DATA_LENGTH - 4 - 3 + rng.below(7)) as u32,
            1 => u32::MAX - 3 - rng.below(4) as u32,
            2 => rng.below(300) as u32,
            _ => st.len,
        };
        all_variants!(state_one, &st, rep);
        let mut fp = Vec::new();
        for x in st.buckets.iter() {
            fp.extend_from_slice(&x.to_le_bytes());
        }
        fp.extend_from_slice(&st.len.to_le_bytes());
        rep.distinct(fingerprint(&fp));
    }
    if ctx.scale >= 1.0 {
        for f in ["mode", "small", "half", "quarter"] {
            rep.floor(&format!("flag_changed_outcome:{}", f), 20);
        }
        for v in ["Short", "Normal", "Long"] {
            for k in ["Ok", "TooSmallInput", "TooLargeInput", "BucketsAreThreeQuarterEmpty", "BucketsAreHalfEmpty"] {
                rep.floor(&format!("{}:{}", v, k), 1);
            }
        }
    }
}

fn replay_data<V: Variant>(name: &str, data: &[u8], rep: &mut Report) {
    if name == V::NAME {
        data_one::<V>(data, rep);
    }
}
fn replay_state<V: Variant>(name: &str, st: &GeneratorState, rep: &mut Report) {
    if name == V::NAME {
        state_one::<V>(st, rep);
    }
}

pub fn replay(case: &Json, rep: &mut Report) -> bool {
    let v = match case.get("variant").and_then(|v| v.as_str()) {
        Some(v) => v,
        None => return false,
    };
    if case.get("constants").is_some() {
        all_variants!(constants_one, rep);
        return true;
    }
    if let Some(data) = case.get_hex("data") {
        all_variants!(replay_data, v, &data, rep);
        return true;
    }
    if let Some(st) = case.get("state").and_then(super::c01::state_from_json) {
        all_variants!(replay_state, v, &st, rep);
        return true;
    }
    false
}
