"""Build configurations ("the matrix") of the harness + fast-tlsh.

Each configuration is a set of harness cargo features (which forward 1:1 to
fast-tlsh features, see harness/Cargo.toml) plus extra rustc flags.
"""

BASE = ["t-std", "t-easy-functions"]
STATIC = BASE + ["t-opt-default", "t-simd"]

CONFIGS = {
    # name: (features, extra rustflags)
    "default": (["t-default"], ""),
    "naive": (BASE, ""),
    "optdef": (BASE + ["t-opt-default"], ""),
    "embedded": (BASE + ["t-opt-embedded-default"], ""),
    "lowmem-a": (BASE + ["lowmem-buckets",
                         "t-opt-low-memory-hex-str-decode-half-table",
                         "t-opt-low-memory-hex-str-encode-half-table",
                         "t-opt-dist-qratios-table"], ""),
    "lowmem-b": (BASE + ["lowmem-buckets",
                         "t-opt-low-memory-hex-str-decode-quarter-table",
                         "t-opt-low-memory-hex-str-encode-min-table",
                         "t-opt-dist-length-table"], ""),
    "lowmem-c": (BASE + ["t-opt-low-memory-hex-str-decode-min-table",
                         "t-opt-pearson-table-double"], ""),
    "hexsimd-parse": (BASE + ["t-opt-simd-parse-hex"], ""),
    "hexsimd-conv": (BASE + ["t-opt-simd-convert-hex"], ""),
    "dyn-nohex": (BASE + ["t-simd-per-arch", "t-opt-simd-body-comparison",
                          "t-opt-simd-bucket-aggregation", "t-detect-features"], ""),
    "detect-only": (BASE + ["t-opt-default", "t-detect-features"], ""),
    "static-sse2": (STATIC, ""),
    "static-sse41": (STATIC, "-Ctarget-feature=+ssse3,+sse4.1"),
    "static-avx2": (STATIC, "-Ctarget-feature=+avx2"),
    "unsafe": (["t-default", "unsafe_"], ""),
    "unsafe-static-avx2": (STATIC + ["unsafe_"], "-Ctarget-feature=+avx2"),
    "unsafe-static-sse41": (STATIC + ["unsafe_"], "-Ctarget-feature=+ssse3,+sse4.1"),
    "unsafe-naive": (BASE + ["unsafe_"], ""),
    "unsafe-lowmem-b": (BASE + ["unsafe_", "lowmem-buckets",
                                "t-opt-low-memory-hex-str-decode-quarter-table",
                                "t-opt-low-memory-hex-str-encode-min-table",
                                "t-opt-dist-length-table"], ""),
    "strict": (["t-default", "strict"], ""),
    "strict-naive": (BASE + ["strict"], ""),
    "serde": (["t-default", "serde"], ""),
    "serde-strict": (["t-default", "serde", "strict"], ""),
    "serde-buf": (["t-default", "serde-buffered"], ""),
    "serde-buf-strict": (["t-default", "serde-buffered", "strict"], ""),
    "serde-unsafe-strict": (["t-default", "serde", "strict", "unsafe_"], ""),
    # all x86 back ends callable under Miri (feature detection is compile-time there)
    "default-avx2": (["t-default"], "-Ctarget-feature=+ssse3,+sse4.1,+avx2"),
    # CPU classes for the run-time dispatch ladder under Miri (which detects at compile time)
    "default-sse3": (["t-default"], "-Ctarget-feature=+sse3"),
    "default-ssse3": (["t-default"], "-Ctarget-feature=+sse3,+ssse3"),
    "default-sse41": (["t-default"], "-Ctarget-feature=+sse3,+ssse3,+sse4.1"),
    "unsafe-avx2": (["t-default", "unsafe_"], "-Ctarget-feature=+ssse3,+sse4.1,+avx2"),
    "serde-strict-avx2": (["t-default", "serde", "strict"], "-Ctarget-feature=+ssse3,+sse4.1,+avx2"),
    # invariant observers (hook H7): extra cfg
    "inv-default": (["t-default"], "--cfg fast_tlsh_verif_invariants"),
    "inv-naive": (BASE, "--cfg fast_tlsh_verif_invariants"),
    "inv-serde-strict": (["t-default", "serde", "strict"], "--cfg fast_tlsh_verif_invariants"),
    # allocation counter
    "alloc-default": (["t-default", "count-alloc"], ""),
    "alloc-naive": (BASE + ["count-alloc"], ""),
    "alloc-static-avx2": (STATIC + ["count-alloc"], "-Ctarget-feature=+avx2"),
    "alloc-lowmem-a": (BASE + ["count-alloc", "lowmem-buckets",
                               "t-opt-low-memory-hex-str-decode-half-table",
                               "t-opt-low-memory-hex-str-encode-half-table",
                               "t-opt-dist-qratios-table"], ""),
    "alloc-strict": (["t-default", "strict", "count-alloc"], ""),
    "alloc-unsafe": (["t-default", "unsafe_", "count-alloc"], ""),
    "alloc-embedded": (BASE + ["t-opt-embedded-default", "count-alloc"], ""),
}

# Optimisation-only configurations whose transcripts must be identical (C07).
TRANSCRIPT_CONFIGS = [
    "naive", "default", "optdef", "embedded", "lowmem-a", "lowmem-b", "lowmem-c",
    "hexsimd-parse", "hexsimd-conv", "dyn-nohex", "detect-only",
    "static-sse2", "static-sse41", "static-avx2",
    "unsafe", "unsafe-static-avx2", "unsafe-static-sse41", "unsafe-naive", "unsafe-lowmem-b",
]
TRANSCRIPT_CONFIGS_QUICK = [
    "naive", "default", "embedded", "lowmem-a", "lowmem-b", "lowmem-c",
    "static-sse2", "static-sse41", "unsafe",
]


def _ensure(config):
    if config not in CONFIGS and config.startswith("rand-"):
        _, seed, k = config.split("-")
        random_configs(seed, int(k) + 1)


def features(config):
    _ensure(config)
    return CONFIGS[config][0]


def rustflags(config):
    _ensure(config)
    return CONFIGS[config][1]


# Random points of the optimisation-only feature lattice (C07): a fresh sample per VERIF_SEED.
RANDOM_POOL = [
    "t-opt-dist-length-table", "t-opt-dist-qratios-table", "t-opt-dist-qratios-table-double",
    "t-opt-pearson-table-double", "lowmem-buckets",
    "t-opt-low-memory-hex-str-decode-half-table", "t-opt-low-memory-hex-str-decode-quarter-table",
    "t-opt-low-memory-hex-str-decode-min-table", "t-opt-low-memory-hex-str-encode-half-table",
    "t-opt-low-memory-hex-str-encode-min-table", "t-opt-simd-body-comparison",
    "t-opt-simd-bucket-aggregation", "t-opt-simd-parse-hex", "t-opt-simd-convert-hex",
    "t-simd-per-arch", "t-detect-features", "unsafe_",
]


def random_configs(seed, count):
    """Register and return `count` random optimisation-only configurations derived from `seed`."""
    import random
    rng = random.Random(int(seed) * 1000003 + 17)
    names = []
    for k in range(count):
        p = rng.choice([0.25, 0.4, 0.6])
        feats = BASE + [f for f in RANDOM_POOL if rng.random() < p]
        flags = rng.choice(["", "-Ctarget-feature=+ssse3,+sse4.1", "-Ctarget-feature=+avx2"])
        name = "rand-%s-%d" % (seed, k)
        CONFIGS[name] = (feats, flags)
        names.append(name)
    return names
