//! Seeded generators (no external crates; no wall-clock or address dependence).

#[derive(Clone, Debug)]
pub struct Rng {
    s: [u64; 4],
}

pub fn splitmix64(x: &mut u64) -> u64 {
    *x = x.wrapping_add(0x9e3779b97f4a7c15);
    let mut z = *x;
    z = (z ^ (z >> 30)).wrapping_mul(0xbf58476d1ce4e5b9);
    z = (z ^ (z >> 27)).wrapping_mul(0x94d049bb133111eb);
    z ^ (z >> 31)
}

/// FNV-1a 64 (used for fingerprints and for deriving seeds from labels).
pub fn fnv64(data: &[u8]) -> u64 {
    let mut h = 0xcbf29ce484222325u64;
    for &b in data {
        h ^= b as u64;
        h = h.wrapping_mul(0x100000001b3);
    }
    h
}

/// A stronger 64-bit mix for fingerprints of long inputs.
pub fn fingerprint(data: &[u8]) -> u64 {
    let mut h = 0x243f6a8885a308d3u64 ^ (data.len() as u64).wrapping_mul(0x9e3779b97f4a7c15);
    for chunk in data.chunks(8) {
        let mut v = [0u8; 8];
        v[..chunk.len()].copy_from_slice(chunk);
        let x = u64::from_le_bytes(v);
        h = (h ^ x).wrapping_mul(0xff51afd7ed558ccd);
        h ^= h >> 32;
        h = h.rotate_left(27).wrapping_add(0x52dce729);
    }
    h ^= h >> 33;
    h = h.wrapping_mul(0xc4ceb9fe1a85ec53);
    h ^ (h >> 29)
}

impl Rng {
    pub fn new(seed: u64) -> Self {
        let mut x = seed;
        let s = [
            splitmix64(&mut x),
            splitmix64(&mut x),
            splitmix64(&mut x),
            splitmix64(&mut x),
        ];
        Rng { s }
    }

    pub fn from_state(s: [u64; 4]) -> Self {
        Rng { s }
    }

    /// Derive a generator from (seed, label, shard, index).
    pub fn derive(seed: u64, label: &str, shard: u64, index: u64) -> Self {
        let mut x = seed ^ fnv64(label.as_bytes());
        let a = splitmix64(&mut x);
        let mut y = a ^ shard.wrapping_mul(0xd6e8feb86659fd93);
        let b = splitmix64(&mut y);
        let mut z = b ^ index.wrapping_mul(0xa0761d6478bd642f);
        Rng::new(splitmix64(&mut z))
    }

    #[inline]
    pub fn next_u64(&mut self) -> u64 {
        let result = self.s[1].wrapping_mul(5).rotate_left(7).wrapping_mul(9);
        let t = self.s[1] << 17;
        self.s[2] ^= self.s[0];
        self.s[3] ^= self.s[1];
        self.s[1] ^= self.s[2];
        self.s[0] ^= self.s[3];
        self.s[2] ^= t;
        self.s[3] = self.s[3].rotate_left(45);
        result
    }

    #[inline]
    pub fn next_u32(&mut self) -> u32 {
        (self.next_u64() >> 32) as u32
    }

    #[inline]
    pub fn next_u8(&mut self) -> u8 {
        (self.next_u64() >> 56) as u8
    }

    /// Uniform in 0..n (n > 0).
    #[inline]
    pub fn below(&mut self, n: u64) -> u64 {
        debug_assert!(n > 0);
        ((self.next_u64() as u128 * n as u128) >> 64) as u64
    }

    #[inline]
    pub fn range(&mut self, lo: u64, hi_inclusive: u64) -> u64 {
        lo + self.below(hi_inclusive - lo + 1)
    }

    #[inline]
    pub fn chance(&mut self, num: u64, den: u64) -> bool {
        self.below(den) < num
    }

    pub fn fill(&mut self, buf: &mut [u8]) {
        for chunk in buf.chunks_mut(8) {
            let v = self.next_u64().to_le_bytes();
            chunk.copy_from_slice(&v[..chunk.len()]);
        }
    }

    pub fn bytes(&mut self, n: usize) -> Vec<u8> {
        let mut v = vec![0u8; n];
        self.fill(&mut v);
        v
    }

    pub fn pick<'a, T>(&mut self, items: &'a [T]) -> &'a T {
        &items[self.below(items.len() as u64) as usize]
    }
}
