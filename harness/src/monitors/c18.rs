//! C18 — core operations never allocate (counting global allocator).
#![cfg(feature = "count-alloc")]

use crate::alloc_count::observe;
use crate::gen;
use crate::json::Json;
use crate::oracle::{self, Opts};
use crate::report::Report;
use crate::rng::{fingerprint, Rng};
use crate::variant::{options, Variant};
use crate::{all_variants, Ctx};
use std::str::FromStr;
use tlsh::length::FuzzyHashLengthEncoding;
use tlsh::{ComparisonConfiguration, FuzzyHashType, GeneratorType, HexStringPrefix};

pub const OPS: [&str; 20] = [
    "generator-new", "update-small-pieces", "update-large", "finalize-all-options", "processed_len",
    "generator-clone", "parse-accepting", "parse-rejecting", "from_str", "try_from-slice",
    "try_from-array", "store_into_bytes", "store_into_str_bytes", "compare-both-modes", "clear_checksum",
    "accessors", "length-api", "validity-and-constants", "part-compare", "equality",
];

struct Prepared {
    data: Vec<u8>,
    pieces: Vec<usize>,
    text_ok: Vec<u8>,
    text_ok_bare: Vec<u8>,
    text_bad: Vec<Vec<u8>>,
    bytes_a: Vec<u8>,
    bytes_b: Vec<u8>,
    bytes_bad: Vec<u8>,
    opts: Vec<tlsh::GeneratorOptions>,
    lengths: Vec<u32>,
    buf: Vec<u8>,
}

fn prepare<V: Variant>(rng: &mut Rng) -> Prepared {
    let (data, _) = gen::input(rng, false, None);
    let data = if data.len() < 300 { rng.bytes(700) } else { data };
    let pieces = gen::pieces(rng, data.len());
    let a = gen::hash_bytes(rng, V::SIZE, V::CK, V::NB, true);
    let b = gen::neighbour(rng, &a, V::CK, V::NB, true);
    let text_ok = super::codec::random_case_text::<V>(rng, &a);
    let text_ok_p = oracle::encode_text(&a, V::CK, true);
    let mut bad1 = text_ok_p.clone();
    bad1[5] = b'G';
    let mut bad2 = text_ok_p.clone();
    bad2[0] = b't';
    let mut bad3 = text_ok_p.clone();
    bad3.pop();
    let mut bad4 = text_ok_p.clone();
    let last = bad4.len() - 1;
    bad4[last] = 0xff;
    Prepared {
        data,
        pieces,
        text_ok: text_ok_p,
        text_ok_bare: if text_ok.len() == V::LEN_STR { text_ok[2..].to_vec() } else { text_ok },
        text_bad: vec![bad1, bad2, bad3, bad4, Vec::new()],
        bytes_a: a,
        bytes_b: b,
        bytes_bad: rng.bytes(V::SIZE + 1),
        opts: (0..32u8).map(|o| options(Opts(o))).collect(),
        lengths: vec![0, 1, 49, 50, 656, 657, 3199, 70000, 4224281216, 4224281217, u32::MAX, rng.next_u32()],
        buf: vec![0u8; V::LEN_STR + 64],
    }
}

/// Run operation `op` for variant `V` inside the allocator window; returns (allocs+reallocs, deallocs).
fn run_op<V: Variant>(op: usize, p: &mut Prepared) -> (u64, u64, u64) {
    // values used by several operations are built before the window opens, but only
    // through routes that do not touch the run-time dispatch or the SIMD hex codec
    let ha = V::from_array(&p.bytes_a).ok();
    let hb = V::from_array(&p.bytes_b).ok();
    let mut acc = 0u64;
    let (_, c) = match OPS[op] {
        "generator-new" => observe(|| {
            let g = V::new_gen();
            acc ^= g.processed_len().unwrap_or(7) as u64;
        }),
        "update-small-pieces" => {
            let mut g = V::new_gen();
            observe(|| {
                let mut pos = 0;
                for &n in &p.pieces {
                    g.update(&p.data[pos..pos + n]);
                    pos += n;
                }
                acc ^= g.processed_len().unwrap_or(7) as u64;
            })
        }
        "update-large" => {
            let mut g = V::new_gen();
            observe(|| {
                g.update(&p.data);
                g.update(&[]);
                acc ^= g.processed_len().unwrap_or(7) as u64;
            })
        }
        "finalize-all-options" => {
            let mut g = V::new_gen();
            g.update(&p.data);
            observe(|| {
                for o in &p.opts {
                    if let Ok(h) = g.finalize_with_options(o) {
                        acc ^= h.length().value() as u64;
                    }
                }
                if let Ok(h) = g.finalize() {
                    acc ^= h.qratios().value() as u64;
                }
            })
        }
        "processed_len" => {
            let mut g = V::new_gen();
            g.update(&p.data);
            observe(|| acc ^= g.processed_len().unwrap_or(7) as u64)
        }
        "generator-clone" => {
            let mut g = V::new_gen();
            g.update(&p.data);
            observe(|| {
                let mut g2 = g.clone();
                g2.update(b"x");
                acc ^= g2.processed_len().unwrap_or(7) as u64;
            })
        }
        "parse-accepting" => observe(|| {
            for (s, m) in [
                (&p.text_ok, None),
                (&p.text_ok, Some(HexStringPrefix::WithVersion)),
                (&p.text_ok_bare, None),
                (&p.text_ok_bare, Some(HexStringPrefix::Empty)),
            ] {
                if let Ok(h) = V::H::from_str_bytes(s, m) {
                    acc ^= h.length().value() as u64;
                }
            }
        }),
        "parse-rejecting" => observe(|| {
            for s in &p.text_bad {
                for m in [None, Some(HexStringPrefix::Empty), Some(HexStringPrefix::WithVersion)] {
                    if let Err(e) = V::H::from_str_bytes(s, m) {
                        acc ^= crate::variant::parse_err_name(&e).len() as u64;
                    }
                }
            }
            if let Err(e) = V::H::from_str_bytes(&p.text_ok, Some(HexStringPrefix::Empty)) {
                acc ^= crate::variant::parse_err_name(&e).len() as u64;
            }
        }),
        "from_str" => {
            let s = String::from_utf8_lossy(&p.text_ok).into_owned();
            let t = String::from_utf8_lossy(&p.text_bad[0]).into_owned();
            observe(|| {
                if let Ok(h) = V::H::from_str(&s) {
                    acc ^= h.length().value() as u64;
                }
                if let Ok(h) = V::H::from_str_with(&s, None) {
                    acc ^= h.length().value() as u64;
                }
                if let Err(e) = V::H::from_str(&t) {
                    acc ^= crate::variant::parse_err_name(&e).len() as u64;
                }
            })
        }
        "try_from-slice" => observe(|| {
            if let Ok(h) = V::from_slice(&p.bytes_a) {
                acc ^= h.length().value() as u64;
            }
            if let Err(e) = V::from_slice(&p.bytes_bad) {
                acc ^= crate::variant::parse_err_name(&e).len() as u64;
            }
            if let Err(e) = V::from_slice(&[]) {
                acc ^= crate::variant::parse_err_name(&e).len() as u64;
            }
        }),
        "try_from-array" => observe(|| {
            if let Ok(h) = V::from_array(&p.bytes_b) {
                acc ^= h.length().value() as u64;
            }
        }),
        "store_into_bytes" => {
            let mut buf = std::mem::take(&mut p.buf);
            let r = observe(|| {
                if let Some(h) = &ha {
                    acc ^= h.store_into_bytes(&mut buf).unwrap_or(0) as u64;
                    acc ^= h.store_into_bytes(&mut buf[..3]).is_err() as u64;
                }
            });
            p.buf = buf;
            r
        }
        "store_into_str_bytes" => {
            let mut buf = std::mem::take(&mut p.buf);
            let r = observe(|| {
                if let Some(h) = &ha {
                    acc ^= h.store_into_str_bytes(&mut buf, HexStringPrefix::WithVersion).unwrap_or(0) as u64;
                    acc ^= h.store_into_str_bytes(&mut buf, HexStringPrefix::Empty).unwrap_or(0) as u64;
                    acc ^= h.store_into_str_bytes(&mut buf[..5], HexStringPrefix::Empty).is_err() as u64;
                }
            });
            p.buf = buf;
            r
        }
        "compare-both-modes" => observe(|| {
            if let (Some(a), Some(b)) = (&ha, &hb) {
                acc ^= a.compare(b) as u64;
                acc ^= a.compare_with_config(b, ComparisonConfiguration::NoLength) as u64;
                acc ^= a.compare_with_config(a, ComparisonConfiguration::Default) as u64;
                acc ^= V::H::max_distance(ComparisonConfiguration::Default) as u64;
            }
        }),
        "clear_checksum" => observe(|| {
            if let Some(a) = &ha {
                let mut c = *a;
                c.clear_checksum();
                acc ^= c.length().value() as u64;
            }
        }),
        "accessors" => observe(|| {
            if let Some(a) = &ha {
                let parts = (a.length().value(), a.qratios().value(), a.qratios().q1ratio(), a.qratios().q2ratio());
                acc ^= parts.0 as u64 ^ parts.1 as u64 ^ parts.2 as u64 ^ parts.3 as u64;
                for i in 0..V::NB {
                    acc ^= V::quartile(a, i) as u64;
                }
                acc ^= V::checksum_valid(a) as u64 ^ a.length().is_valid() as u64;
            }
        }),
        "length-api" => observe(|| {
            for &n in &p.lengths {
                if let Some(c) = FuzzyHashLengthEncoding::new(n) {
                    acc ^= c.value() as u64;
                    if let Some(r) = c.range() {
                        acc ^= *r.start() as u64;
                    }
                    acc ^= c.is_valid() as u64;
                    acc ^= c.compare(&c) as u64;
                }
                acc ^= FuzzyHashLengthEncoding::try_from(n).is_ok() as u64;
            }
        }),
        "validity-and-constants" => observe(|| {
            for &n in &p.lengths {
                let v = V::validity(n);
                acc ^= v.is_err() as u64 ^ v.is_err_on(tlsh::DataLengthProcessingMode::Conservative) as u64;
            }
            acc ^= <V::G as GeneratorType>::MIN as u64 ^ <V::G as GeneratorType>::MAX as u64;
        }),
        "part-compare" => observe(|| {
            if let (Some(a), Some(b)) = (&ha, &hb) {
                acc ^= V::body_compare(a, b) as u64
                    ^ V::checksum_compare(a, b) as u64
                    ^ a.qratios().compare(b.qratios()) as u64
                    ^ a.length().compare(b.length()) as u64;
            }
        }),
        _ => observe(|| {
            if let (Some(a), Some(b)) = (&ha, &hb) {
                acc ^= (a == b) as u64 ^ (a == a) as u64;
            }
        }),
    };
    std::hint::black_box(acc);
    (c.allocs + c.reallocs, c.deallocs, c.bytes)
}

fn check_op<V: Variant>(op: usize, p: &mut Prepared, first: bool, rep: &mut Report) {
    let (allocs, deallocs, bytes) = run_op::<V>(op, p);
    rep.eval(1);
    rep.count(&format!("op:{}", OPS[op]), 1);
    if first {
        rep.seen("first-call-ops", &format!("{}:{}", V::NAME, OPS[op]));
    }
    if allocs > 0 || deallocs > 0 {
        rep.violation(
            &format!("alloc|{}|{}{}", V::NAME, OPS[op], if first { "|first-call" } else { "" }),
            &format!(
                "{} on {} performed {} allocator calls ({} bytes requested) and {} deallocations{}",
                OPS[op],
                V::NAME,
                allocs,
                bytes,
                deallocs,
                if first { " as the first operation of the process" } else { "" }
            ),
            Json::obj()
                .with("variant", V::NAME)
                .with("op", OPS[op])
                .with("first", first)
                .with("data", Json::hex(&p.data[..p.data.len().min(256)])),
        );
    }
}

fn variant_loop<V: Variant>(ctx: &Ctx, rep: &mut Report, first_op: Option<usize>) {
    if let Some(op) = first_op {
        let mut rng = ctx.rng("c18-first", V::INDEX as u64);
        let mut p = prepare::<V>(&mut rng);
        check_op::<V>(op, &mut p, true, rep);
    }
    let n = ctx.n(4_000, 400_000);
    for i in 0..n {
        let mut rng = ctx.rng("c18", (V::INDEX as u64) << 48 | i);
        let mut p = prepare::<V>(&mut rng);
        for op in 0..OPS.len() {
            check_op::<V>(op, &mut p, false, rep);
        }
        let mut fp = p.data.clone();
        fp.extend_from_slice(&p.bytes_a);
        fp.push(V::INDEX as u8);
        rep.distinct(fingerprint(&fp));
        if rep.want_sample() && i == 1 {
            rep.sample(Json::obj().with("variant", V::NAME).with("ops", OPS.iter().map(|s| Json::s(s)).collect::<Vec<_>>()).with("data_len", p.data.len()));
        }
    }
}

pub fn run(ctx: &Ctx, rep: &mut Report) {
    rep.rule = "a counting #[global_allocator] with a per-thread window: 20 operation kinds (generator new/update/finalize under all 32 options/processed_len/clone, parsing accepting and rejecting through every entry point, TryFrom slice/array, both store functions, comparison in both modes, clear_checksum, accessors incl. quartile(i), length API, validity) x 5 variants on seeded inputs prepared before the window opens; each process additionally runs one (variant, operation) as its very first crate call (dispatch initialisation, hex-simd detection); any alloc / realloc / dealloc inside the window is a violation; positive controls (to_string, hash_stream) must be seen to allocate; distinct by fingerprint of the prepared inputs".into();
    // the very first crate call of this process
    let first_op = (ctx.shard as usize) % OPS.len();
    let first_variant = (ctx.shard as usize / OPS.len()) % 5;
    match first_variant {
        0 => variant_loop::<crate::variant::VNormal>(ctx, rep, Some(first_op)),
        1 => variant_loop::<crate::variant::VShort>(ctx, rep, Some(first_op)),
        2 => variant_loop::<crate::variant::VLong>(ctx, rep, Some(first_op)),
        3 => variant_loop::<crate::variant::VNormal3>(ctx, rep, Some(first_op)),
        _ => variant_loop::<crate::variant::VLong3>(ctx, rep, Some(first_op)),
    }
    fn rest<V: Variant>(ctx: &Ctx, rep: &mut Report, skip: usize) {
        if V::INDEX != skip {
            variant_loop::<V>(ctx, rep, None);
        }
    }
    let skip = [1usize, 0, 3, 2, 4][first_variant];
    all_variants!(rest, ctx, rep, skip);
    // positive controls: the counter is live
    let h = crate::variant::VNormal::from_array(&[7u8; 35]).unwrap();
    let (_, c1) = observe(|| std::hint::black_box(h.to_string()).len());
    let data = vec![0x41u8; 5000];
    let (_, c2) = observe(|| {
        let mut r = &data[..];
        let _ = std::hint::black_box(tlsh::hash_stream(&mut r));
    });
    rep.count("control:to_string_allocs", c1.allocs);
    rep.count("control:hash_stream_allocs", c2.allocs);
    if c1.allocs == 0 || c2.allocs == 0 {
        rep.inconclusive("positive control failed: to_string / hash_stream were not seen to allocate, the counter is not live");
    }
    rep.floor("control:to_string_allocs", 1);
    rep.floor("control:hash_stream_allocs", 1);
}

pub fn replay(case: &Json, ctx: &Ctx, rep: &mut Report) -> bool {
    let _ = case;
    run(ctx, rep);
    true
}
