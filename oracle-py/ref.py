#!/usr/bin/env python3
"""Second, independent executable model of TLSH generation (stdlib only).

Used only to cross-check the Rust reference model in harness/src/oracle.rs
(oracle-vs-oracle): `ref.py check <file>` reads lines produced by
`probe model-dump` (hex(data) nb ck options expected) and recomputes them.
This is the specification of DESIGN.md Appendix A.
"""
import struct
import sys

V = [1, 87, 49, 12, 176, 178, 102, 166, 121, 193, 6, 84, 249, 230, 44, 163, 14, 197, 213, 181, 161, 85, 218, 80, 64, 239, 24, 226, 236, 142, 38, 200, 110, 177, 104, 103, 141, 253, 255, 50, 77, 101, 81, 18, 45, 96, 31, 222, 25, 107, 190, 70, 86, 237, 240, 34, 72, 242, 20, 214, 244, 227, 149, 235, 97, 234, 57, 22, 60, 250, 82, 175, 208, 5, 127, 199, 111, 62, 135, 248, 174, 169, 211, 58, 66, 154, 106, 195, 245, 171, 17, 187, 182, 179, 0, 243, 132, 56, 148, 75, 128, 133, 158, 100, 130, 126, 91, 13, 153, 246, 216, 219, 119, 68, 223, 78, 83, 88, 201, 99, 122, 11, 92, 32, 136, 114, 52, 10, 138, 30, 48, 183, 156, 35, 61, 26, 143, 74, 251, 94, 129, 162, 63, 152, 170, 7, 115, 167, 241, 206, 3, 150, 55, 59, 151, 220, 90, 53, 23, 131, 125, 173, 15, 238, 79, 95, 89, 16, 105, 137, 225, 224, 217, 160, 37, 123, 118, 73, 2, 157, 46, 116, 9, 145, 134, 228, 207, 212, 202, 215, 69, 229, 27, 188, 67, 124, 168, 252, 42, 4, 29, 108, 21, 247, 19, 205, 39, 203, 233, 40, 186, 147, 198, 192, 155, 33, 164, 191, 98, 204, 165, 180, 117, 76, 140, 36, 210, 172, 41, 54, 159, 8, 185, 232, 113, 196, 231, 47, 146, 120, 51, 65, 28, 144, 254, 221, 93, 189, 194, 139, 112, 43, 71, 109, 184, 209]
TOP = [1, 2, 3, 5, 7, 11, 17, 25, 38, 57, 86, 129, 194, 291, 437, 656, 854, 1110, 1443, 1876, 2439, 3171, 3475, 3823, 4205, 4626, 5088, 5597, 6157, 6772, 7450, 8195, 9014, 9916, 10907, 11998, 13198, 14518, 15970, 17567, 19323, 21256, 23382, 25720, 28292, 31121, 34233, 37656, 41422, 45564, 50121, 55133, 60646, 66711, 73382, 80721, 88793, 97672, 107439, 118183, 130002, 143002, 157302, 173032, 190335, 209369, 230306, 253337, 278670, 306538, 337191, 370911, 408002, 448802, 493682, 543050, 597356, 657091, 722800, 795081, 874589, 962048, 1058252, 1164078, 1280486, 1408534, 1549388, 1704327, 1874759, 2062236, 2268459, 2495305, 2744836, 3019320, 3321252, 3653374, 4018711, 4420582, 4862641, 5348905, 5883796, 6472176, 7119394, 7831333, 8614467, 9475909, 10423501, 11465851, 12612437, 13873681, 15261050, 16787154, 18465870, 20312458, 22343706, 24578077, 27035886, 29739474, 32713425, 35984770, 39583245, 43541573, 47895730, 52685306, 57953837, 63749221, 70124148, 77136564, 84850228, 93335252, 102668779, 112935659, 124229227, 136652151, 150317384, 165349128, 181884040, 200072456, 220079703, 242087671, 266296456, 292926096, 322218735, 354440623, 389884688, 428873168, 471760495, 518936559, 570830240, 627913311, 690704607, 759775136, 835752671, 919327967, 1011260767, 1112386880, 1223623232, 1345985727, 1480584256, 1628642751, 1791507135, 1970657856, 2167723648, 2384496256, 2622945920, 2885240448, 3173764736, 3491141248, 3840255616, 4224281216]
V48 = [48 if x >= 240 else x % 48 for x in V]


def f32(x):
    return struct.unpack("f", struct.pack("f", x))[0]


def bmap(nb, salt, i, j, k):
    h = V[salt]
    h = V[h ^ i]
    h = V[h ^ j]
    return (V48 if nb == 48 else V)[h ^ k]


def tlsh(data, nb, ck, cons=False, intq=True, small=False, half=False, quarter=False):
    b = [0] * 256
    cs = [0] * ck
    n = len(data)
    for p in range(4, n):
        a0, a1, a2, a3, a4 = data[p], data[p - 1], data[p - 2], data[p - 3], data[p - 4]
        cs[0] = bmap(nb, 0, a0, a1, cs[0])
        for k in range(1, ck):
            cs[k] = bmap(256, cs[k - 1], a0, a1, cs[k])
        for salt, x, y in ((2, a1, a2), (3, a1, a3), (5, a2, a3), (7, a2, a4), (11, a1, a4), (13, a3, a4)):
            r = bmap(nb, salt, a0, x, y)
            b[r] = (b[r] + 1) & 0xFFFFFFFF
    mn, mc = (10, 10) if nb == 48 else (50, 256)
    if n > TOP[-1]:
        return "TooLargeInput"
    if n < (mc if cons else mn) and not small:
        return "TooSmallInput"
    eff = b[:nb]
    s = sorted(eff)
    q1, q2, q3 = s[nb // 4 - 1], s[nb // 2 - 1], s[nb - nb // 4 - 1]
    if q3 == 0:
        if not quarter:
            return "BucketsAreThreeQuarterEmpty"
        q1 = q2 = q3 = 1
    nz = sum(1 for x in eff if x)
    if nz < (18 if nb == 48 else nb // 2 + 1) and not (half or quarter):
        return "BucketsAreHalfEmpty"
    if intq:
        r1, r2 = (q1 * 100 // q3) % 16, (q2 * 100 // q3) % 16
    else:
        r1, r2 = (int(f32(f32((q * 100) & 0xFFFFFFFF) / f32(q3))) % 16 for q in (q1, q2))
    lv = next(i for i, t in enumerate(TOP) if n <= t)
    body = bytearray(nb // 4)
    for i in range(nb):
        d = 3 if eff[i] > q3 else 2 if eff[i] > q2 else 1 if eff[i] > q1 else 0
        body[nb // 4 - 1 - i // 4] |= d << (2 * (i % 4))
    sw = lambda x: ((x & 15) << 4) | (x >> 4)  # noqa: E731
    hdr = bytes(sw(c) for c in cs) + bytes([sw(lv), sw(r1 | (r2 << 4))])
    return "T1" + (hdr + bytes(body)).hex().upper()


def main():
    if len(sys.argv) != 3 or sys.argv[1] != "check":
        print(__doc__)
        return 2
    n = bad = 0
    for line in open(sys.argv[2]):
        f = line.split()
        if len(f) != 5:
            continue
        data = bytes.fromhex(f[0]) if f[0] != "-" else b""
        nb, ck, o = int(f[1]), int(f[2]), int(f[3])
        got = tlsh(data, nb, ck, cons=bool(o & 1), intq=bool(o & 2), small=bool(o & 4), half=bool(o & 8), quarter=bool(o & 16))
        n += 1
        if got != f[4]:
            bad += 1
            if bad <= 5:
                print("MISMATCH data=%s nb=%d ck=%d options=%d: python %s, rust model %s" % (f[0][:80], nb, ck, o, got, f[4]))
    print("compared %d model results, %d mismatches" % (n, bad))
    return 1 if bad else 0


if __name__ == "__main__":
    sys.exit(main())
