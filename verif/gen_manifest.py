#!/usr/bin/env python3
"""Regenerate /verif/MANIFEST.json from the tables below + plans.py."""
import json
import os
import subprocess
import sys

HERE = os.path.dirname(os.path.abspath(__file__))
ROOT = os.path.dirname(HERE)
sys.path.insert(0, HERE)
import plans  # noqa: E402

# property -> (technique, level text, level note, design ref)
CLAIMS = {
    "C01": (
        "reference-model monitor at the API, injected-state, bucket-mapping and back-end level; debug-assertion/overflow-check builds",
        "Runtime monitoring: every finalize result of the real crate on seeded, boundary-biased inputs x 5 variants x 32 option settings is compared with an independent executable model of the TLSH reference; generator states unreachable without multi-GiB inputs are injected through a hook and finalized by both; both bucket-mapping functions are enumerated (all 2^32 tuples in the thorough tier); every compiled aggregation back end is driven directly. Held on the executions observed, not a proof.",
        "Trusts the reference model in harness/src/oracle.rs (validated against the repository's official KAT vectors and a second Python model) and the hook H2/H3/H5 wrappers; sampled input space.",
        "DESIGN.md §3 C01",
    ),
}

NOT_YET = "check not built yet in this round (work in progress; see DESIGN.md §3)"


def main():
    props = [json.loads(l) for l in open(os.path.join(ROOT, "properties.jsonl"))]
    try:
        commits = subprocess.run(["git", "-C", "/repo", "log", "--format=%H %s", "--grep=^verif hooks:"],
                                 stdout=subprocess.PIPE, text=True).stdout.strip().splitlines()
    except Exception:
        commits = []
    checks = []
    not_applicable = []
    for p in props:
        pid = p["id"]
        if pid in CLAIMS and plans.plan(pid, "quick"):
            tech, text, note, ref = CLAIMS[pid]
            checks.append({
                "property_id": pid,
                "quick_cmd": "./check %s --tier quick" % pid,
                "thorough_cmd": "./check %s --tier thorough" % pid,
                "evidence_file": "/verif/evidence/%s.json" % pid,
                "replay_cmd_template": "./check %s --replay {path}" % pid,
                "engine": "probe",
                "level_claimed": {"category": "exploration", "text": text, "design_ref": ref},
                "level_note": note,
                "technique": tech,
            })
        else:
            not_applicable.append({"property_id": pid, "reason": NOT_YET})
    manifest = {
        "version": 1,
        "setup_cmd": "./check setup",
        "hooks": {
            "guard": "fast_tlsh_verif",
            "enable": "RUSTFLAGS=\"--cfg fast_tlsh_verif\" (set by ./check for every build of /verif/harness, which path-depends on /repo/fast-tlsh); the invariant observer additionally needs --cfg fast_tlsh_verif_invariants",
            "baseline_off_cmd": "cd /repo && (cargo nextest run --workspace --no-fail-fast --tool-config-file pb:/w/lib/nextest.toml --profile pb --test-threads 8 --offline || cargo test --workspace --no-fail-fast --offline)",
            "source_commits": [c.split(" ")[0] for c in reversed(commits)],
            "add_only": True,
        },
        "engines": [
            {"name": "probe", "path": "/verif/harness", "serves_properties": [c["property_id"] for c in checks],
             "kind_free_text": "Rust probe binary (reference models + monitors + workload generators) built per configuration against /repo's working tree with hooks on, run natively (release and debug-assertion/overflow-check profiles) and under Miri / AddressSanitizer / ThreadSanitizer / valgrind; orchestrated by /verif/verif/main.py"},
        ],
        "checks": checks,
        "not_applicable": not_applicable,
        "notes": "Verdicts are three-valued: exit 0 held on what was observed, exit 1 VIOLATION (replay file written), exit 2 INCONCLUSIVE (tool died, watchdog, coverage floor not reached). Known findings: /verif/KNOWN_FINDINGS.json.",
    }
    with open(os.path.join(ROOT, "MANIFEST.json"), "w") as f:
        json.dump(manifest, f, indent=1)
        f.write("\n")
    print("MANIFEST.json: %d checks, %d not_applicable" % (len(checks), len(not_applicable)))


if __name__ == "__main__":
    main()
