//! C11 — oversized and > 4 GiB inputs are rejected cleanly; fed length reported exactly.

use crate::gen;
use crate::json::Json;
use crate::oracle::{Opts, RefState, MAX_DATA_LENGTH};
use crate::report::{guard, Report};
use crate::rng::{fingerprint, Rng};
use crate::variant::{gen_err_name, options, Parts, Variant};
use crate::{all_variants, Ctx};
use tlsh::verif::GeneratorState;
use tlsh::{GeneratorError, GeneratorType};

const TWO32: u64 = 1 << 32;
const CHECK_OPTS: [u8; 4] = [30, 28, 2, 1];

fn show(r: &Result<Parts, GeneratorError>) -> String {
    match r {
        Ok(p) => format!("Ok({})", crate::json::hex(&p.bytes())),
        Err(e) => gen_err_name(e).to_string(),
    }
}

/// Compare the crate generator with the model that holds the same bytes.
fn compare_now<V: Variant>(g: &V::G, rs: &RefState, problems: &mut Vec<(String, String)>, rep: &mut Report) {
    let n = rs.n;
    let exp_len = if n < TWO32 { Some(n as u32) } else { None };
    let got_len = g.processed_len();
    rep.eval(1);
    if got_len != exp_len {
        problems.push((
            "processed_len".into(),
            format!("after {} bytes processed_len() = {:?}, expected {:?}", n, got_len, exp_len),
        ));
    }
    for o in CHECK_OPTS {
        let got = g
            .finalize_with_options(&options(Opts(o)))
            .map(|h| V::parts(&h));
        rep.eval(1);
        let too_large = matches!(got, Err(GeneratorError::TooLargeInput));
        if too_large != (n > MAX_DATA_LENGTH) {
            problems.push((
                "too-large-gate".into(),
                format!(
                    "after {} bytes finalize({}) = {} (TooLargeInput expected iff n > {})",
                    n,
                    Opts(o).describe(),
                    show(&got),
                    MAX_DATA_LENGTH
                ),
            ));
            continue;
        }
        if n <= MAX_DATA_LENGTH {
            if let Some(exp) = rs.finalize(V::NB, V::CK, Opts(o)) {
                if let Some(class) = super::c01::compare_outcome(&got, &exp) {
                    problems.push((
                        format!("model|{}", class),
                        format!(
                            "after {} bytes finalize({}) = {} vs reference {}",
                            n,
                            Opts(o).describe(),
                            show(&got),
                            match &exp {
                                Ok(p) => format!("Ok({})", crate::json::hex(&p.bytes())),
                                Err(e) => e.name().to_string(),
                            }
                        ),
                    ));
                }
                if n == MAX_DATA_LENGTH {
                    if let Ok(p) = &got {
                        rep.count("ok_at_exactly_MAX", 1);
                        if p.lv != 169 {
                            problems.push(("code-at-max".into(), format!("length code {} at MAX", p.lv)));
                        }
                    }
                }
            }
        }
    }
}

/// One history: start from an injected state and feed `pieces` (lengths) of seeded bytes.
pub fn history_check<V: Variant>(st: &GeneratorState, pieces: &[usize], seed: u64, rep: &mut Report) {
    let case = || {
        Json::obj()
            .with("variant", V::NAME)
            .with("state", super::c01::state_json(st))
            .with("pieces", pieces.iter().map(|&p| Json::i(p as u64)).collect::<Vec<_>>())
            .with("content_seed", seed)
    };
    let mut problems = Vec::new();
    let r = {
        let problems = &mut problems;
        let rep: &mut Report = rep;
        guard(move || {
            let mut g = V::gen_from_state(st);
            let mut rs = super::c01::ref_from_state(st, if V::NB == 48 { 48 } else { 256 });
            // a saturated injected state stands for "at least 2^32 bytes"
            if st.len == u32::MAX - 3 && st.tail_len == 4 {
                rs.n = TWO32;
            }
            let mut rng = Rng::new(seed);
            compare_now::<V>(&g, &rs, problems, rep);
            for &p in pieces {
                let before = rs.n;
                let data = if p > 1 << 20 { vec![rng.next_u8(); p] } else { rng.bytes(p) };
                g.update(&data);
                // the model need not hash what can no longer matter
                if before > MAX_DATA_LENGTH + 8 {
                    rs.n += p as u64;
                } else {
                    rs.update(&data);
                }
                let after = rs.n;
                for (mark, name) in [(MAX_DATA_LENGTH, "MAX"), (TWO32, "2^32")] {
                    if before <= mark && after > mark {
                        rep.count(&format!("crossed:{}", name), 1);
                        if before == mark {
                            rep.count(&format!("piece_started_on:{}", name), 1);
                        }
                        if p > 8 {
                            rep.count(&format!("crossed_with_big_piece:{}", name), 1);
                        }
                    }
                    if after == mark {
                        rep.count(&format!("piece_ended_on:{}", name), 1);
                    }
                }
                if before <= MAX_DATA_LENGTH && after > TWO32 {
                    rep.count("one_piece_crossed_both_marks", 1);
                }
                if before >= TWO32 {
                    rep.count("pieces_after_saturation", 1);
                }
                compare_now::<V>(&g, &rs, problems, rep);
                if !problems.is_empty() {
                    break;
                }
            }
        })
    };
    if let Err(p) = r {
        rep.violation(
            &format!("oversize|{}|panic", V::NAME),
            &format!("panic: {} at {}", p.message, p.location),
            case(),
        );
    }
    for (kind, what) in problems {
        rep.violation(&format!("oversize|{}|{}", V::NAME, kind), &what, case());
    }
}

pub fn gen_history(rng: &mut Rng, big: bool) -> (GeneratorState, Vec<usize>) {
    let (mut st, _) = gen::state(rng);
    let k = rng.below(64);
    let start: u64 = match rng.below(5) {
        0 | 1 => MAX_DATA_LENGTH - k,
        2 | 3 => TWO32 - k,
        _ => MAX_DATA_LENGTH - 4 - rng.below(2000),
    };
    // len + tail_len == start  (len saturates at 2^32-4)
    let len = (start - 4).min(TWO32 - 4);
    st.len = len as u32;
    st.tail_len = 4;
    let mut pieces = Vec::new();
    let mut pos = start;
    let count = rng.range(1, 40);
    for _ in 0..count {
        let p = match rng.below(12) {
            0..=5 => rng.below(9),
            6 => {
                // end exactly on the next mark
                if pos < MAX_DATA_LENGTH {
                    MAX_DATA_LENGTH - pos
                } else if pos < TWO32 && TWO32 - pos < 5000 {
                    TWO32 - pos
                } else {
                    rng.below(9)
                }
            }
            7 => {
                // end one past the next mark
                if pos <= MAX_DATA_LENGTH {
                    MAX_DATA_LENGTH - pos + 1
                } else if pos <= TWO32 && TWO32 - pos < 5000 {
                    TWO32 - pos + 1
                } else {
                    rng.below(9)
                }
            }
            8 => rng.range(9, 300),
            9 if big && pos <= MAX_DATA_LENGTH => TWO32 - pos + rng.below(100),
            _ => rng.below(70),
        };
        pieces.push(p as usize);
        pos += p;
    }
    (st, pieces)
}

pub fn run(ctx: &Ctx, rep: &mut Report) {
    rep.rule = "histories started from injected states (hook H2) 0..64 bytes before the 4 224 281 216-byte and 2^32-byte marks, fed seeded pieces (0..8 bytes, ending exactly on / one past a mark, larger, one piece crossing both marks); after every piece processed_len, the TooLargeInput gate and (n <= MAX) the finalize results are compared with the reference model continued from the same state; non-trivial = history crosses or touches a mark; distinct by fingerprint of (variant, start, pieces, seed)".into();
    let n = ctx.n(40_000, 2_000_000);
    for i in 0..n {
        let mut rng = ctx.rng("c11", i);
        // one 70 MB piece crossing both marks per shard (quick), more in thorough
        let big = if ctx.scale < 1.0 { false } else { i < if ctx.thorough() { 4 } else { 1 } };
        let (st, pieces) = gen_history(&mut rng, big);
        let pieces = if big {
            // make sure the crossing piece is really there
            let start = st.len as u64 + 4;
            let mut p = pieces;
            if start <= MAX_DATA_LENGTH {
                p.insert(0, (TWO32 - start + 3) as usize);
            }
            p
        } else {
            pieces
        };
        let seed = rng.next_u64();
        let before = rep.counters.get("crossed:MAX").copied().unwrap_or(0)
            + rep.counters.get("crossed:2^32").copied().unwrap_or(0);
        match i % 5 {
            0 => history_check::<crate::variant::VNormal>(&st, &pieces, seed, rep),
            1 => history_check::<crate::variant::VShort>(&st, &pieces, seed, rep),
            2 => history_check::<crate::variant::VNormal3>(&st, &pieces, seed, rep),
            3 => history_check::<crate::variant::VLong>(&st, &pieces, seed, rep),
            _ => history_check::<crate::variant::VLong3>(&st, &pieces, seed, rep),
        }
        let after = rep.counters.get("crossed:MAX").copied().unwrap_or(0)
            + rep.counters.get("crossed:2^32").copied().unwrap_or(0);
        if after > before {
            let mut fp = Vec::new();
            fp.extend_from_slice(&st.len.to_le_bytes());
            fp.extend_from_slice(&seed.to_le_bytes());
            for p in &pieces {
                fp.extend_from_slice(&(*p as u64).to_le_bytes());
            }
            fp.push((i % 5) as u8);
            rep.distinct(fingerprint(&fp));
        }
        if rep.want_sample() && i % 3 == 1 {
            rep.sample(
                Json::obj()
                    .with("start_bytes", st.len as u64 + 4)
                    .with("pieces", pieces.iter().take(12).map(|&p| Json::i(p as u64)).collect::<Vec<_>>()),
            );
        }
    }
    if ctx.scale >= 1.0 {
        for k in [
            "crossed:MAX", "crossed:2^32", "piece_ended_on:MAX", "piece_ended_on:2^32",
            "piece_started_on:MAX", "piece_started_on:2^32", "pieces_after_saturation",
            "one_piece_crossed_both_marks", "ok_at_exactly_MAX", "crossed_with_big_piece:MAX",
        ] {
            rep.floor(k, 1);
        }
    }
}

// ---------------------------------------------------------------------------
// Real multi-GiB streams (thorough): validates the injected states against real feeding.

fn family_chunk(family: u64, offset: u64, buf: &mut [u8], x: &mut u64) {
    match family {
        0 => {
            for (i, b) in buf.iter_mut().enumerate() {
                *b = if (offset + i as u64) % 2 == 0 { 0x41 } else { 0x42 };
            }
        }
        1 => {
            for (i, b) in buf.iter_mut().enumerate() {
                *b = ((offset + i as u64) % 251) as u8;
            }
        }
        2 => {
            // pseudo-random, but a pure function of the absolute offset, so that the stream does
            // not depend on how it is cut into chunks
            let _ = x;
            for (i, b) in buf.iter_mut().enumerate() {
                let off = offset + i as u64;
                let mut z = (off / 8).wrapping_mul(0x9e3779b97f4a7c15) ^ 0x2545f4914f6cdd1d;
                z = (z ^ (z >> 30)).wrapping_mul(0xbf58476d1ce4e5b9);
                z = (z ^ (z >> 27)).wrapping_mul(0x94d049bb133111eb);
                z ^= z >> 31;
                *b = (z >> (8 * (off % 8))) as u8;
            }
        }
        _ => {
            for b in buf.iter_mut() {
                *b = 0;
            }
        }
    }
}

trait Sink: Send {
    fn feed(&mut self, data: &[u8]);
}
struct CrateSink<V: Variant>(V::G);
impl<V: Variant> Sink for CrateSink<V> {
    fn feed(&mut self, data: &[u8]) {
        self.0.update(data);
    }
}
struct RefSink(RefState);
impl Sink for RefSink {
    fn feed(&mut self, data: &[u8]) {
        self.0.update(data);
    }
}

fn pump<S: Sink>(sink: &mut S, family: u64, total: u64, chunk: usize) {
    let mut buf = vec![0u8; chunk];
    let mut x = 0x9e3779b97f4a7c15u64;
    let mut off = 0u64;
    while off < total {
        let n = ((total - off) as usize).min(chunk);
        // the xorshift family must not depend on the chunking: always generate whole 8-byte words
        family_chunk(family, off, &mut buf[..n], &mut x);
        sink.feed(&buf[..n]);
        off += n as u64;
    }
}

/// Feed `MAX - 8` real bytes into all five generators and both models (7 threads), then walk
/// byte by byte across MAX, then up to 2^32 and across it.
pub fn run_real(ctx: &Ctx, rep: &mut Report) {
    rep.rule = "real streams of 4 224 281 208 bytes (three content families: 2-periodic, 251-periodic, xorshift) fed in large chunks to all five generators and to the reference model, then single bytes across the 4 224 281 216-byte mark and (after a real 70 MB piece) across 2^32, comparing processed_len, the TooLargeInput gate and finalize results at every step; one case per (family, variant); all are non-trivial".into();
    let family = ctx.param_u64("family", ctx.shard % 3);
    let chunk = [1 << 20, (1 << 30) + 12345, 65536 + 7][(family % 3) as usize]; // deliberately odd sizes
    let head = MAX_DATA_LENGTH - 8 - (8 - (MAX_DATA_LENGTH % 8)) % 8; // multiple of 8 for the word generator
    let head = head - head % 8;
    let mut gs = crate::variant::VShort::new_gen();
    let mut gn = crate::variant::VNormal::new_gen();
    let mut gn3 = crate::variant::VNormal3::new_gen();
    let mut gl = crate::variant::VLong::new_gen();
    let mut gl3 = crate::variant::VLong3::new_gen();
    let mut r48 = RefState::new(48);
    let mut r256 = RefState::new(256);
    let t0 = std::time::Instant::now();
    std::thread::scope(|s| {
        s.spawn(|| {
            let mut k = CrateSink::<crate::variant::VShort>(gs.clone());
            pump(&mut k, family, head, chunk);
            gs = k.0;
        });
        s.spawn(|| {
            let mut k = CrateSink::<crate::variant::VNormal>(gn.clone());
            pump(&mut k, family, head, chunk);
            gn = k.0;
        });
        s.spawn(|| {
            let mut k = CrateSink::<crate::variant::VNormal3>(gn3.clone());
            pump(&mut k, family, head, chunk);
            gn3 = k.0;
        });
        s.spawn(|| {
            let mut k = CrateSink::<crate::variant::VLong>(gl.clone());
            pump(&mut k, family, head, chunk);
            gl = k.0;
        });
        s.spawn(|| {
            let mut k = CrateSink::<crate::variant::VLong3>(gl3.clone());
            pump(&mut k, family, head, chunk);
            gl3 = k.0;
        });
        s.spawn(|| {
            let mut k = RefSink(r48.clone());
            pump(&mut k, family, head, 1 << 20);
            r48 = k.0;
        });
        s.spawn(|| {
            let mut k = RefSink(r256.clone());
            pump(&mut k, family, head, 1 << 20);
            r256 = k.0;
        });
    });
    rep.count("real_stream_head_bytes", head);
    rep.max("real_stream_seconds", t0.elapsed().as_secs());

    fn walk<V: Variant>(g: &mut V::G, rs: &RefState, family: u64, rep: &mut Report) {
        let mut rs = rs.clone();
        let mut problems = Vec::new();
        let mut rng = Rng::new(family ^ 0xabcdef);
        let case = || {
            Json::obj()
                .with("variant", V::NAME)
                .with("real_stream_family", family)
        };
        compare_now::<V>(g, &rs, &mut problems, rep);
        // also: the state reached by real feeding equals the model state (validates H2 injection)
        let st = V::gen_state(g);
        if st.buckets[..V::NB] != rs.b[..V::NB] || st.checksum[..V::CK] != rs.cs[..V::CK] {
            problems.push(("real-state".into(), "bucket/checksum state after the real stream differs from the model".into()));
        }
        // single bytes across MAX
        while rs.n < MAX_DATA_LENGTH + 4 && problems.is_empty() {
            let b = [rng.next_u8()];
            g.update(&b);
            rs.update(&b);
            compare_now::<V>(g, &rs, &mut problems, rep);
        }
        // a real piece up to 2^32 - 6, then single bytes across 2^32
        let gap = (TWO32 - 6 - rs.n) as usize;
        let piece = vec![0x5au8; gap];
        g.update(&piece);
        rs.n += gap as u64;
        compare_now::<V>(g, &rs, &mut problems, rep);
        while rs.n < TWO32 + 6 && problems.is_empty() {
            let b = [rng.next_u8()];
            g.update(&b);
            rs.n += 1;
            compare_now::<V>(g, &rs, &mut problems, rep);
        }
        for (kind, what) in problems {
            rep.violation(&format!("real-stream|{}|{}", V::NAME, kind), &what, case());
        }
        rep.count("real_streams_walked", 1);
        rep.count("distinct_by_construction", 1);
    }
    walk::<crate::variant::VShort>(&mut gs, &r48, family, rep);
    walk::<crate::variant::VNormal>(&mut gn, &r256, family, rep);
    walk::<crate::variant::VNormal3>(&mut gn3, &r256, family, rep);
    walk::<crate::variant::VLong>(&mut gl, &r256, family, rep);
    walk::<crate::variant::VLong3>(&mut gl3, &r256, family, rep);
    rep.sample(Json::obj().with("family", family).with("head_bytes", head).with("chunk", chunk as u64));
    rep.floor("real_streams_walked", 5);
    rep.floor("ok_at_exactly_MAX", 1);
}

/// One single `update` call with a slice longer than `u32::MAX` bytes.
pub fn run_huge_slice(ctx: &Ctx, rep: &mut Report) {
    rep.rule = "one single update() call with a zero-filled slice of 2^32 + 10 bytes (the length does not fit u32) per variant; processed_len must be None, finalize TooLargeInput, no panic; then the same generator is fed more data".into();
    fn one<V: Variant>(data: &[u8], rep: &mut Report) {
        let r = guard(|| {
            let mut g = V::new_gen();
            g.update(data);
            let a = (g.processed_len(), g.finalize_with_options(&options(Opts(30))).map(|h| V::parts(&h)));
            g.update(&data[..100]);
            let b = (g.processed_len(), g.finalize_with_options(&options(Opts(30))).map(|h| V::parts(&h)));
            (a, b)
        });
        rep.eval(4);
        rep.count("distinct_by_construction", 1);
        let case = Json::obj().with("variant", V::NAME).with("huge_slice", data.len() as u64);
        match r {
            Err(p) => rep.violation(
                &format!("huge-slice|{}|panic", V::NAME),
                &format!("panic: {} at {}", p.message, p.location),
                case,
            ),
            Ok((a, b)) => {
                for (i, x) in [a, b].iter().enumerate() {
                    if x.0.is_some() || !matches!(x.1, Err(GeneratorError::TooLargeInput)) {
                        rep.violation(
                            &format!("huge-slice|{}|result", V::NAME),
                            &format!("step {}: processed_len = {:?}, finalize = {}", i, x.0, show(&x.1)),
                            case.clone(),
                        );
                    }
                }
            }
        }
        rep.count("huge_slices", 1);
    }
    let data = vec![0u8; (TWO32 + 1000) as usize];
    if ctx.thorough() {
        all_variants!(one, &data, rep);
        rep.floor("huge_slices", 5);
    } else {
        // quick tier: one variant (about 25 s of hashing)
        match ctx.shard % 2 {
            0 => one::<crate::variant::VNormal>(&data, rep),
            _ => one::<crate::variant::VShort>(&data, rep),
        }
        rep.floor("huge_slices", 1);
    }
    rep.sample(Json::obj().with("slice_len", data.len() as u64));
}

fn replay_one<V: Variant>(name: &str, st: &GeneratorState, pieces: &[usize], seed: u64, rep: &mut Report) {
    if name == V::NAME {
        history_check::<V>(st, pieces, seed, rep);
    }
}

pub fn replay(case: &Json, ctx: &Ctx, rep: &mut Report) -> bool {
    if case.get("real_stream_family").is_some() {
        let mut c = ctx.clone();
        c.params.insert("family".into(), case.get("real_stream_family").unwrap().as_u64().unwrap_or(0).to_string());
        run_real(&c, rep);
        return true;
    }
    if case.get("huge_slice").is_some() {
        run_huge_slice(ctx, rep);
        return true;
    }
    if let (Some(v), Some(st), Some(p), Some(seed)) = (
        case.get("variant").and_then(|v| v.as_str()),
        case.get("state").and_then(super::c01::state_from_json),
        case.get("pieces").and_then(|p| p.as_arr()),
        case.get("content_seed").and_then(|s| s.as_u64()),
    ) {
        let pieces: Vec<usize> = p.iter().map(|x| x.as_u64().unwrap_or(0) as usize).collect();
        all_variants!(replay_one, v, &st, &pieces, seed, rep);
        return true;
    }
    false
}
