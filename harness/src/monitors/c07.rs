//! C07 — results do not depend on feature configuration, SIMD back end or first caller.

use crate::gen;
use crate::json::Json;
use crate::oracle::{self, Opts};
use crate::report::{guard, Report};
use crate::rng::{fnv64, Rng};
use crate::variant::{gen_err_name, options, parse_err_name, Variant};
use crate::Ctx;
use std::fmt::Write as _;
use std::str::FromStr;
use std::sync::atomic::{AtomicU64, Ordering};
use std::sync::{Arc, Barrier, Mutex};
use tlsh::length::FuzzyHashLengthEncoding;
use tlsh::{ComparisonConfiguration, FuzzyHashType, GeneratorOrIOError, GeneratorType, HexStringPrefix};

pub const BLOCK: u64 = 256;

// ---------------------------------------------------------------------------
// Transcript: one canonical record per operation of a fixed, seeded corpus.

fn res_hash<V: Variant>(r: Result<V::H, tlsh::GeneratorError>) -> String {
    match r {
        Ok(h) => {
            let mut buf = vec![0u8; V::SIZE];
            let n = h.store_into_bytes(&mut buf).unwrap_or(0);
            format!("ok:{}:{}", crate::json::hex(&buf[..n]), h)
        }
        Err(e) => format!("err:{}", gen_err_name(&e)),
    }
}

fn res_parse<V: Variant>(r: Result<V::H, tlsh::ParseError>) -> String {
    match r {
        Ok(h) => {
            let mut buf = vec![0u8; V::SIZE];
            let n = h.store_into_bytes(&mut buf).unwrap_or(0);
            format!("ok:{}", crate::json::hex(&buf[..n]))
        }
        Err(e) => format!("err:{}", parse_err_name(&e)),
    }
}

fn op_record<V: Variant>(kind: u64, rng: &mut Rng, out: &mut String) {
    match kind {
        0 => {
            // generation with options
            let (data, _) = gen::input(rng, false, None);
            let o = rng.below(32) as u8;
            let mut g = V::new_gen();
            g.update(&data);
            let _ = write!(
                out,
                "gen|{}|len={}|o={}|{}|{}|plen={:?}",
                V::NAME,
                data.len(),
                o,
                res_hash::<V>(g.finalize_with_options(&options(Opts(o)))),
                res_hash::<V>(V::hash_buf(&data)),
                g.processed_len()
            );
        }
        1 => {
            // formatting
            let b = gen::hash_bytes(rng, V::SIZE, V::CK, V::NB, true);
            match V::from_array(&b) {
                Ok(h) => {
                    let mut b1 = vec![0u8; V::LEN_STR + 3];
                    let n1 = h.store_into_str_bytes(&mut b1, HexStringPrefix::Empty).unwrap_or(0);
                    let mut b2 = vec![0x55u8; V::LEN_STR];
                    let n2 = h.store_into_str_bytes(&mut b2, HexStringPrefix::WithVersion).unwrap_or(0);
                    let _ = write!(
                        out,
                        "fmt|{}|{}|{}|{}|{}",
                        V::NAME,
                        h,
                        String::from_utf8_lossy(&b1[..n1]),
                        String::from_utf8_lossy(&b2[..n2]),
                        crate::json::hex(&b1[n1..])
                    );
                }
                Err(e) => {
                    let _ = write!(out, "fmt|{}|unconstructible:{}", V::NAME, parse_err_name(&e));
                }
            }
        }
        2 => {
            // parsing accepted and rejected text (values kept strict-valid so that the record
            // means the same with and without the strict parser; rejects are lenient rejects)
            let b = gen::hash_bytes(rng, V::SIZE, V::CK, V::NB, true);
            let mut s = super::codec::random_case_text::<V>(rng, &b);
            match rng.below(6) {
                0 => {
                    let p = rng.below(s.len() as u64) as usize;
                    s[p] = *rng.pick(&[b'G', b'g', b'@', b'`', b'/', b':', 0xff, b' ']);
                }
                1 => {
                    s.pop();
                }
                2 => {
                    if s.len() == V::LEN_STR {
                        s[1] = b'2';
                    }
                }
                _ => {}
            }
            let mode = rng.below(3) as u8;
            let _ = write!(
                out,
                "parse|{}|m={}|{}|{}",
                V::NAME,
                mode,
                crate::json::hex(&s),
                res_parse::<V>(V::H::from_str_bytes(&s, super::codec::mode_of(mode)))
            );
            if let Ok(st) = std::str::from_utf8(&s) {
                let _ = write!(out, "|{}", res_parse::<V>(V::H::from_str(st)));
            }
        }
        3 => {
            // binary conversion
            let len = *rng.pick(&[V::SIZE, V::SIZE, V::SIZE, V::SIZE - 1, V::SIZE + 1, 0]);
            let mut b = gen::hash_bytes(rng, V::SIZE.max(len), V::CK, V::NB, true);
            b.truncate(len);
            while b.len() < len {
                b.push(rng.next_u8());
            }
            let r = V::from_slice(&b);
            let _ = write!(out, "bin|{}|{}|{}", V::NAME, crate::json::hex(&b), res_parse::<V>(r));
            if let Ok(h) = V::from_slice(&b) {
                let mut q = String::new();
                for i in (0..V::NB).step_by(7) {
                    let _ = write!(q, "{}", V::quartile(&h, i));
                }
                let mut c = h;
                c.clear_checksum();
                let _ = write!(out, "|q={}|cleared={}", q, c);
            }
        }
        4 => {
            // comparison in both modes
            let a = gen::hash_bytes(rng, V::SIZE, V::CK, V::NB, true);
            let b = if rng.chance(1, 2) {
                gen::neighbour(rng, &a, V::CK, V::NB, true)
            } else {
                gen::hash_bytes(rng, V::SIZE, V::CK, V::NB, true)
            };
            if let (Ok(ha), Ok(hb)) = (V::from_array(&a), V::from_array(&b)) {
                let _ = write!(
                    out,
                    "cmp|{}|{}|{}|d={}|nl={}|body={}|ck={}|q={}|len={}|max={}",
                    V::NAME,
                    crate::json::hex(&a),
                    crate::json::hex(&b),
                    ha.compare(&hb),
                    ha.compare_with_config(&hb, ComparisonConfiguration::NoLength),
                    V::body_compare(&ha, &hb),
                    V::checksum_compare(&ha, &hb),
                    ha.qratios().compare(hb.qratios()),
                    ha.length().compare(hb.length()),
                    V::H::max_distance(ComparisonConfiguration::Default)
                );
            }
        }
        5 => {
            // length encoding
            let n = match rng.below(3) {
                0 => (oracle::TOP[rng.below(170) as usize] as u64 + rng.below(3)).saturating_sub(1) as u32,
                1 => rng.next_u32(),
                _ => rng.next_u32() >> rng.below(32),
            };
            let c = FuzzyHashLengthEncoding::new(n);
            let _ = write!(
                out,
                "len|{}|{:?}|{:?}|{:?}",
                n,
                c.map(|c| c.value()),
                c.and_then(|c| c.range()),
                V::validity(n)
            );
        }
        6 => {
            // stream hashing through a scripted (honest) reader
            let (data, _) = gen::input(rng, false, None);
            let script = super::c12::gen_script(rng, data.len());
            let mut rd = super::c12::Scripted::new(&data, &script);
            let r = V::hash_stream(&mut rd);
            let _ = write!(
                out,
                "stream|{}|len={}|{}",
                V::NAME,
                data.len(),
                match r {
                    Ok(h) => format!("ok:{}", h),
                    Err(GeneratorOrIOError::GeneratorError(e)) => format!("err:{}", gen_err_name(&e)),
                    Err(GeneratorOrIOError::IOError(e)) => format!("io:{:?}", e.kind()),
                }
            );
        }
        7 => {
            // chunked update history
            let (data, _) = gen::input(rng, false, None);
            let pieces = gen::pieces(rng, data.len());
            let mut g = V::new_gen();
            let mut pos = 0;
            for n in pieces {
                g.update(&data[pos..pos + n]);
                pos += n;
            }
            let o = rng.below(32) as u8;
            let _ = write!(
                out,
                "hist|{}|len={}|o={}|{}",
                V::NAME,
                data.len(),
                o,
                res_hash::<V>(g.finalize_with_options(&options(Opts(o))))
            );
        }
        8 => {
            // injected states (large counts, ties, wrapped)
            let (st, _) = gen::state(rng);
            let g = V::gen_from_state(&st);
            let o = rng.below(32) as u8;
            let _ = write!(
                out,
                "state|{}|len={}|o={}|{}",
                V::NAME,
                st.len,
                o,
                res_hash::<V>(g.finalize_with_options(&options(Opts(o))))
            );
        }
        _ => {
            // string comparison helper
            let kl = super::c12::KINDS[rng.below(4) as usize];
            let kr = super::c12::KINDS[rng.below(4) as usize];
            let l = super::c12::gen_string::<V>(rng, kl);
            let r = super::c12::gen_string::<V>(rng, kr);
            let _ = write!(
                out,
                "cmps|{}|{}|{}|{:?}",
                V::NAME,
                l,
                r,
                V::compare_with(&l, &r).map_err(|e| (e.side(), parse_err_name(&e.inner_err())))
            );
        }
    }
}

/// The record of operation `i` of the corpus with this seed.
pub fn record(seed: u64, i: u64) -> String {
    let mut rng = Rng::derive(seed, "transcript", 0, i);
    let kind = rng.below(10);
    let v = rng.below(5);
    let mut out = format!("{}|", i);
    let r = {
        let out = &mut out;
        let rng = &mut rng;
        guard(move || match v {
            0 => op_record::<crate::variant::VShort>(kind, rng, out),
            1 => op_record::<crate::variant::VNormal>(kind, rng, out),
            2 => op_record::<crate::variant::VNormal3>(kind, rng, out),
            3 => op_record::<crate::variant::VLong>(kind, rng, out),
            _ => op_record::<crate::variant::VLong3>(kind, rng, out),
        })
    };
    if let Err(p) = r {
        let _ = write!(out, "PANIC:{}", p.message);
    }
    out
}

pub fn run_transcript(ctx: &Ctx, rep: &mut Report) {
    rep.rule = "a fixed seeded corpus of API operations (generate with options, format, parse accepted and rejected text, binary conversion + accessors, compare in both modes, length encode/range/validity, stream hashing, chunked histories, injected states, string comparison helper) emits one canonical record per operation; digests of 256-record blocks are compared between every configuration and the all-naive build by the orchestrator, the first differing record is the witness; distinct = operations".into();
    let total = match ctx.tier {
        crate::Tier::Quick => 160_000,
        crate::Tier::Thorough => 4_000_000,
    };
    let total = ((total as f64 * ctx.scale) as u64 / BLOCK).max(1) * BLOCK;
    let blocks = total / BLOCK;
    let (lo, hi) = ctx.slice(blocks);
    if let Some(b) = ctx.params.get("dump_block").and_then(|b| b.parse::<u64>().ok()) {
        let mut lines = Vec::new();
        for i in b * BLOCK..(b + 1) * BLOCK {
            lines.push(Json::s(record(ctx.seed, i)));
        }
        rep.sample(Json::obj().with("block", b).with("records", Json::Arr(lines)));
        rep.eval(BLOCK);
        rep.count("distinct_by_construction", BLOCK);
        return;
    }
    let mut digests = Vec::new();
    for b in lo..hi {
        let mut h = 0xcbf29ce484222325u64;
        for i in b * BLOCK..(b + 1) * BLOCK {
            let r = record(ctx.seed, i);
            if r.contains("PANIC:") {
                rep.violation("transcript|panic", &format!("operation {} panicked: {}", i, r), Json::obj().with("op_index", i));
            }
            h = (h ^ fnv64(r.as_bytes())).wrapping_mul(0x100000001b3);
            rep.count(&format!("ops:{}", r.split('|').nth(1).unwrap_or("?")), 1);
            if rep.want_sample() && i % 977 == 5 {
                rep.sample(Json::s(r));
            }
        }
        digests.push(Json::obj().with("block", b).with("digest", format!("{:016x}", h)));
    }
    rep.eval((hi - lo) * BLOCK);
    rep.count("distinct_by_construction", (hi - lo) * BLOCK);
    // the digests travel in a side channel of the report (the `sets` table)
    for d in digests {
        rep.sets
            .entry("block-digests".into())
            .or_default()
            .insert(format!("{:08}:{}", d.get("block").unwrap().as_u64().unwrap(), d.get("digest").unwrap().as_str().unwrap()));
    }
}

// ---------------------------------------------------------------------------
// First-call schedules: N threads make the process's first calls concurrently.

static SEQ: AtomicU64 = AtomicU64::new(0);
static EVENTS: Mutex<Vec<(u64, u64, &'static str, u8)>> = Mutex::new(Vec::new());
static INIT_DELAY_SPINS: AtomicU64 = AtomicU64::new(0);

thread_local! {
    static TOKEN: std::cell::Cell<u64> = const { std::cell::Cell::new(u64::MAX) };
}

fn dispatch_observer(name: &'static str, event: u8) {
    let seq = SEQ.fetch_add(1, Ordering::SeqCst);
    let token = TOKEN.with(|t| t.get());
    if event == tlsh::verif::DISPATCH_EVENT_INIT {
        // widen the window in which other threads find the cache uninitialised
        let spins = INIT_DELAY_SPINS.load(Ordering::Relaxed);
        for _ in 0..spins {
            std::hint::spin_loop();
        }
        if spins > 0 {
            std::thread::yield_now();
        }
    }
    if let Ok(mut e) = EVENTS.lock() {
        e.push((seq, token, name, event));
    }
}

#[derive(Clone)]
struct FirstWork {
    a32: Vec<u8>,
    b32: Vec<u8>,
    a64: Vec<u8>,
    b64: Vec<u8>,
    state: tlsh::verif::GeneratorState,
    order: Vec<u8>,
}

fn first_calls(w: &FirstWork) -> Vec<(u8, String, String)> {
    use crate::variant::{VLong, VNormal, VShort};
    let mut out = Vec::new();
    for &k in &w.order {
        let (got, exp) = match k {
            0 => {
                let (a, b) = (VNormal::from_array(&w.a32).unwrap(), VNormal::from_array(&w.b32).unwrap());
                (a.compare(&b).to_string(), oracle::distance(&w.a32, &w.b32, 1, false).to_string())
            }
            1 => {
                let (a, b) = (VLong::from_array(&w.a64).unwrap(), VLong::from_array(&w.b64).unwrap());
                (a.compare(&b).to_string(), oracle::distance(&w.a64, &w.b64, 1, false).to_string())
            }
            2 | 3 | 4 => {
                fn fin<V: Variant>(st: &tlsh::verif::GeneratorState) -> (String, String) {
                    let got = V::gen_from_state(st)
                        .finalize_with_options(&options(Opts(30)))
                        .map(|h| crate::json::hex(&V::parts(&h).bytes()))
                        .unwrap_or_else(|e| gen_err_name(&e).to_string());
                    let rs = super::c01::ref_from_state(st, if V::NB == 48 { 48 } else { 256 });
                    let exp = match rs.finalize(V::NB, V::CK, Opts(30)) {
                        Some(Ok(h)) => crate::json::hex(&h.bytes()),
                        Some(Err(e)) => e.name().to_string(),
                        None => got.clone(),
                    };
                    (got, exp)
                }
                match k {
                    2 => fin::<VShort>(&w.state),
                    3 => fin::<VNormal>(&w.state),
                    _ => fin::<VLong>(&w.state),
                }
            }
            _ => {
                // text round trip (hex-simd run-time detection in SIMD builds)
                let h = VNormal::from_array(&w.a32).unwrap();
                let s = h.to_string();
                let back = crate::variant::VNormal::parts(&<VNormal as Variant>::H::from_str(&s).unwrap()).bytes();
                (
                    format!("{}:{}", s, crate::json::hex(&back)),
                    format!("{}:{}", String::from_utf8_lossy(&oracle::encode_text(&w.a32, 1, true)), crate::json::hex(&w.a32)),
                )
            }
        };
        out.push((k, got, exp));
    }
    out
}

pub fn run_firstcall(ctx: &Ctx, rep: &mut Report) {
    rep.rule = "one fresh process per trial: N in {2,4,8,16} threads released by a barrier each make their first calls (compare on Normal and Long, finalize on 48/128/256 buckets, text round trip) in a seeded order; every result is compared with the reference model; hook H6 records which thread ran each dispatch initialiser and which calls arrived before it finished (half of the trials spin inside the initialiser to force overlap); distinct = trials (each has its own seed)".into();
    let mut rng = ctx.rng("c07-firstcall", 0);
    let nthreads = *rng.pick(&[2usize, 4, 8, 16]);
    let nthreads = ctx.param_u64("threads", nthreads as u64) as usize;
    let delay = if rng.chance(1, 2) { rng.range(2_000, 200_000) } else { 0 };
    INIT_DELAY_SPINS.store(ctx.param_u64("spins", delay), Ordering::Relaxed);
    let observed = tlsh::verif::set_dispatch_observer(dispatch_observer);
    let mut works = Vec::new();
    for _ in 0..nthreads {
        let a32 = gen::hash_bytes(&mut rng, 35, 1, 128, true);
        let b32 = gen::neighbour(&mut rng, &a32, 1, 128, true);
        let a64 = gen::hash_bytes(&mut rng, 67, 1, 256, true);
        let b64 = gen::hash_bytes(&mut rng, 67, 1, 256, true);
        let (state, _) = gen::state(&mut rng);
        let mut order: Vec<u8> = (0..6).collect();
        for i in (1..order.len()).rev() {
            order.swap(i, rng.below(i as u64 + 1) as usize);
        }
        works.push(FirstWork { a32, b32, a64, b64, state, order });
    }
    let barrier = Arc::new(Barrier::new(nthreads));
    let mut handles = Vec::new();
    for (t, w) in works.iter().cloned().enumerate() {
        let barrier = barrier.clone();
        handles.push(std::thread::spawn(move || {
            TOKEN.with(|x| x.set(t as u64));
            barrier.wait();
            first_calls(&w)
        }));
    }
    let mut results = Vec::new();
    for (t, h) in handles.into_iter().enumerate() {
        match h.join() {
            Ok(r) => results.push((t, r)),
            Err(_) => rep.violation("firstcall|panic", "a thread making first calls panicked", Json::obj().with("threads", nthreads).with("thread", t)),
        }
    }
    for (t, rs) in &results {
        for (k, got, exp) in rs {
            rep.eval(1);
            if got != exp {
                rep.violation(
                    &format!("firstcall|wrong-result|op{}", k),
                    &format!("thread {} of {}: first call of operation {} returned {} but the model says {}", t, nthreads, k, got, exp),
                    Json::obj().with("threads", nthreads).with("thread", *t).with("op", *k).with("spins", delay),
                );
            }
        }
    }
    rep.count("trials", 1);
    rep.count("distinct_by_construction", 1);
    rep.count(&format!("threads:{}", nthreads), 1);
    if delay > 0 {
        rep.count("trials_with_init_delay", 1);
    }
    // analyse the dispatch events
    let events = EVENTS.lock().map(|e| e.clone()).unwrap_or_default();
    let mut names: Vec<&'static str> = events.iter().map(|e| e.2).collect();
    names.sort_unstable();
    names.dedup();
    for name in names {
        let inits: Vec<_> = events.iter().filter(|e| e.2 == name && e.3 == tlsh::verif::DISPATCH_EVENT_INIT).collect();
        rep.count(&format!("dispatch:{}:init_events", name), inits.len() as u64);
        if inits.len() > 1 {
            // OnceLock guarantees exactly one initialiser run; more is a correctness signal
            rep.count(&format!("dispatch:{}:MULTIPLE_INITS", name), 1);
        }
        if let Some(init) = inits.first() {
            rep.seen(&format!("initialiser-thread:{}", name), &format!("t{}", init.1));
            // calls by other threads that entered before the initialiser was entered or while it ran
            let last_init_thread_event = events.iter().filter(|e| e.1 == init.1 && e.2 == name).map(|e| e.0).max().unwrap_or(init.0);
            let overlapping = events
                .iter()
                .filter(|e| e.2 == name && e.3 == tlsh::verif::DISPATCH_EVENT_CALL && e.1 != init.1 && e.0 < last_init_thread_event + 1 + nthreads as u64)
                .filter(|e| e.0 <= init.0 + nthreads as u64 * 2)
                .count();
            if overlapping > 0 {
                rep.count(&format!("dispatch:{}:trials_with_overlapping_calls", name), 1);
            }
        }
    }
    rep.count(if observed { "observer_installed" } else { "observer_not_installed" }, 1);
    rep.sample(Json::obj().with("threads", nthreads).with("init_delay_spins", delay).with("dispatch_events", events.len()));
    if ctx.params.get("fail_exit").is_some() && rep.violation_count > 0 {
        eprintln!("firstcall: wrong result observed: {}", rep.violations[0].to_string());
        std::process::exit(1);
    }
}

pub fn replay(case: &Json, ctx: &Ctx, rep: &mut Report) -> bool {
    if let Some(i) = case.get("op_index").and_then(|x| x.as_u64()) {
        let r = record(ctx.seed, i);
        rep.eval(1);
        rep.sample(Json::s(r.clone()));
        if r.contains("PANIC:") {
            rep.violation("transcript|panic", &r, case.clone());
        }
        return true;
    }
    if case.get("threads").is_some() {
        let mut c = ctx.clone();
        c.params.insert("threads".into(), case.get("threads").unwrap().as_u64().unwrap_or(4).to_string());
        if let Some(s) = case.get("spins").and_then(|s| s.as_u64()) {
            c.params.insert("spins".into(), s.to_string());
        }
        run_firstcall(&c, rep);
        return true;
    }
    false
}
