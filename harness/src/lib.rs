//! Runtime monitors for fast-tlsh (see /verif/DESIGN.md).

pub mod gen;
pub mod json;
pub mod monitors;
pub mod oracle;
pub mod report;
pub mod rng;
pub mod variant;

#[cfg(feature = "count-alloc")]
pub mod alloc_count;

use json::Json;

#[derive(Clone, Copy, Debug, PartialEq, Eq)]
pub enum Tier {
    Quick,
    Thorough,
}

#[derive(Clone, Debug)]
pub struct Ctx {
    pub tier: Tier,
    pub seed: u64,
    pub shard: u64,
    pub nshards: u64,
    /// Multiplier on every workload size (e.g. 0.002 under Miri).
    pub scale: f64,
    /// Name of the build configuration (informational, recorded in replays).
    pub config: String,
    /// Instrumenting tool this process runs under (informational).
    pub tool: String,
    /// Scratch directory for monitors that need files.
    pub scratch: String,
    /// Extra monitor-specific parameters (`--param k=v`).
    pub params: std::collections::BTreeMap<String, String>,
}

impl Ctx {
    /// Per-shard number of cases for this tier.
    pub fn n(&self, quick: u64, thorough: u64) -> u64 {
        // reduced (interpreter) runs are sized relative to the quick count in both tiers;
        // the plan's scale factor alone makes their thorough variant larger
        let total = match self.tier {
            Tier::Thorough if self.scale >= 0.2 => thorough,
            _ => quick,
        } as f64
            * self.scale;
        let per = (total / self.nshards as f64).ceil() as u64;
        per.max(1)
    }
    pub fn rng(&self, label: &str, index: u64) -> rng::Rng {
        rng::Rng::derive(self.seed, label, self.shard, index)
    }
    pub fn thorough(&self) -> bool {
        self.tier == Tier::Thorough
    }
    pub fn strict(&self) -> bool {
        cfg!(feature = "strict")
    }
    pub fn param_u64(&self, key: &str, default: u64) -> u64 {
        self.params
            .get(key)
            .and_then(|v| v.parse().ok())
            .unwrap_or(default)
    }
    /// Split `0..total` into this shard's contiguous slice.
    pub fn slice(&self, total: u64) -> (u64, u64) {
        let per = total / self.nshards;
        let rem = total % self.nshards;
        let lo = self.shard * per + self.shard.min(rem);
        let hi = lo + per + if self.shard < rem { 1 } else { 0 };
        (lo, hi)
    }
    pub fn describe(&self) -> Json {
        Json::obj()
            .with("config", self.config.as_str())
            .with("tool", self.tool.as_str())
            .with("seed", self.seed)
            .with("shard", self.shard)
            .with("nshards", self.nshards)
            .with(
                "tier",
                match self.tier {
                    Tier::Quick => "quick",
                    Tier::Thorough => "thorough",
                },
            )
    }
}
