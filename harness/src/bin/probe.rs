//! `probe <monitor> [--tier quick|thorough] [--seed N] [--shard i/n] [--scale f]
//!        [--config name] [--tool name] [--scratch dir] [--param k=v]... --out file.json`
//! `probe --replay file.json [--out file.json]`
//! `probe selftest` | `probe list` | `probe merge-fp files...`

use std::collections::BTreeMap;
use std::io::Read;
use tlsh_verif::json::Json;
use tlsh_verif::report::{install_panic_hook, Report};
use tlsh_verif::{monitors, oracle, Ctx, Tier};

#[cfg(feature = "count-alloc")]
#[global_allocator]
static GLOBAL: tlsh_verif::alloc_count::CountingAllocator = tlsh_verif::alloc_count::CountingAllocator;

fn out_path_for_dump(args: &[String]) -> Option<String> {
    args.iter().position(|a| a == "--out").and_then(|i| args.get(i + 1).cloned())
}

fn usage() -> ! {
    eprintln!("usage: probe <monitor>|selftest|list|merge-fp ... (see source)");
    std::process::exit(2);
}

fn main() {
    let args: Vec<String> = std::env::args().collect();
    if args.len() < 2 {
        usage();
    }
    install_panic_hook();
    let mut monitor = String::new();
    let mut ctx = Ctx {
        tier: Tier::Quick,
        seed: 0,
        shard: 0,
        nshards: 1,
        scale: 1.0,
        config: "unknown".into(),
        tool: "native".into(),
        scratch: std::env::temp_dir().to_string_lossy().into_owned(),
        params: BTreeMap::new(),
    };
    let mut out: Option<String> = None;
    let mut replay: Option<String> = None;
    let mut rest: Vec<String> = Vec::new();
    let mut i = 1;
    while i < args.len() {
        let a = args[i].as_str();
        let mut val = || {
            i += 1;
            args.get(i).cloned().unwrap_or_else(|| usage())
        };
        match a {
            "--tier" => {
                ctx.tier = match val().as_str() {
                    "quick" => Tier::Quick,
                    "thorough" => Tier::Thorough,
                    _ => usage(),
                }
            }
            "--seed" => ctx.seed = val().parse().unwrap_or_else(|_| usage()),
            "--shard" => {
                let v = val();
                let (a, b) = v.split_once('/').unwrap_or_else(|| usage());
                ctx.shard = a.parse().unwrap_or_else(|_| usage());
                ctx.nshards = b.parse().unwrap_or_else(|_| usage());
            }
            "--scale" => ctx.scale = val().parse().unwrap_or_else(|_| usage()),
            "--config" => ctx.config = val(),
            "--tool" => ctx.tool = val(),
            "--scratch" => ctx.scratch = val(),
            "--param" => {
                let v = val();
                let (k, x) = v.split_once('=').unwrap_or_else(|| usage());
                ctx.params.insert(k.to_string(), x.to_string());
            }
            "--out" => out = Some(val()),
            "--replay" => replay = Some(val()),
            _ => {
                if monitor.is_empty() {
                    monitor = a.to_string();
                } else {
                    rest.push(a.to_string());
                }
            }
        }
        i += 1;
    }

    if ctx.tool.starts_with("miri") || ctx.params.contains_key("small") {
        tlsh_verif::gen::set_small(true);
    }
    if monitor == "selftest" {
        match oracle::selfcheck().and_then(|_| oracle::katcheck()) {
            Ok(n) => {
                println!("oracle selfcheck ok ({} known-answer vectors reproduced by the models)", n);
                return;
            }
            Err(e) => {
                eprintln!("oracle selfcheck FAILED: {}", e);
                std::process::exit(3);
            }
        }
    }
    if monitor == "model-dump" {
        // results of the Rust reference model on seeded inputs, for the Python cross-check
        let n = ctx.param_u64("n", 60);
        let mut out = String::new();
        for i in 0..n {
            let mut rng = ctx.rng("model-dump", i);
            let len = match rng.below(4) {
                0 => rng.below(70) as usize,
                1 => *rng.pick(&[9usize, 10, 49, 50, 255, 256, 257]),
                _ => tlsh_verif::gen::byte_length(&mut rng, false).min(1500),
            };
            let (data, _) = tlsh_verif::gen::content(&mut rng, len, None);
            for (nb, ck) in [(48usize, 1usize), (128, 1), (128, 3), (256, 1), (256, 3)] {
                for o in 0..32u8 {
                    let hexd = if data.is_empty() { "-".to_string() } else { tlsh_verif::json::hex(&data) };
                    out.push_str(&format!("{} {} {} {} {}\n", hexd, nb, ck, o, oracle::model_text(&data, nb, ck, oracle::Opts(o))));
                }
            }
        }
        match &out_path_for_dump(&args) {
            Some(p) => std::fs::write(p, out).expect("write dump"),
            None => print!("{}", out),
        }
        return;
    }
    if monitor == "list" {
        for (m, p) in monitors::MONITORS {
            println!("{} {}", m, p);
        }
        return;
    }
    if monitor == "merge-fp" {
        let mut all: Vec<u64> = Vec::new();
        for f in &rest {
            let mut buf = Vec::new();
            if let Ok(mut fh) = std::fs::File::open(f) {
                let _ = fh.read_to_end(&mut buf);
            }
            for c in buf.chunks_exact(8) {
                all.push(u64::from_le_bytes(c.try_into().unwrap()));
            }
        }
        all.sort_unstable();
        all.dedup();
        println!("{}", all.len());
        return;
    }

    // (the self-check of the reference models is interpreted far too slowly under Miri; every
    //  check also runs natively, where it is performed)
    if !cfg!(miri) {
        if let Err(e) = oracle::selfcheck() {
            eprintln!("oracle selfcheck FAILED: {}", e);
            std::process::exit(3);
        }
    }

    let report: Report = if let Some(path) = replay {
        let text = std::fs::read_to_string(&path).unwrap_or_else(|e| {
            eprintln!("cannot read replay {}: {}", path, e);
            std::process::exit(2)
        });
        let j = Json::parse(&text).unwrap_or_else(|e| {
            eprintln!("cannot parse replay {}: {}", path, e);
            std::process::exit(2)
        });
        let mon = j
            .get("monitor")
            .and_then(|m| m.as_str())
            .unwrap_or("")
            .to_string();
        let prop = j
            .get("property")
            .and_then(|m| m.as_str())
            .unwrap_or("")
            .to_string();
        let case = j.get("case").cloned().unwrap_or(Json::Null);
        if let Some(p) = j.get("params").and_then(|p| p.as_obj()) {
            for (k, v) in p {
                if let Some(s) = v.as_str() {
                    ctx.params.insert(k.clone(), s.to_string());
                }
            }
        }
        let mut rep = Report::new(&prop, &mon);
        if !monitors::replay(&mon, &case, &ctx, &mut rep) {
            rep.inconclusive("replay: case not understood by this monitor");
        }
        rep
    } else {
        match monitors::run(&monitor, &ctx) {
            Some(r) => r,
            None => {
                eprintln!("unknown monitor {}", monitor);
                std::process::exit(2);
            }
        }
    };

    let mut j = report.to_json();
    j.set("ctx", ctx.describe());
    let text = j.to_string();
    match &out {
        Some(path) => {
            std::fs::write(path, &text).expect("write report");
            std::fs::write(format!("{}.fp", path), report.fingerprint_bytes()).expect("write fp");
        }
        None => println!("{}", text),
    }
    eprintln!(
        "[probe] {} shard {}/{} evaluations={} distinct={} violations={} inconclusive={}",
        report.monitor,
        ctx.shard,
        ctx.nshards,
        report.evaluations,
        report.fingerprints.len(),
        report.violation_count,
        report.inconclusive.len()
    );
    // exit status: 0 = ran (verdict is in the report), 2 = usage; violations are
    // decided by the orchestrator from the report, not from the exit code.
}
