//! One module per property; `run()` maps monitor names to them.

use crate::json::Json;
use crate::report::Report;
use crate::Ctx;

pub mod c01;

/// (monitor name, property id)
pub const MONITORS: &[(&str, &str)] = &[
    ("c01-api", "C01"),
    ("c01-state", "C01"),
    ("c01-map", "C01"),
    ("c01-agg", "C01"),
];

pub fn property_of(monitor: &str) -> Option<&'static str> {
    MONITORS.iter().find(|(m, _)| *m == monitor).map(|(_, p)| *p)
}

pub fn run(monitor: &str, ctx: &Ctx) -> Option<Report> {
    let prop = ctx
        .params
        .get("property")
        .map(|s| s.as_str())
        .or(property_of(monitor))?;
    let mut rep = Report::new(prop, monitor);
    match monitor {
        "c01-api" => c01::run_api(ctx, &mut rep),
        "c01-state" => c01::run_state(ctx, &mut rep),
        "c01-map" => c01::run_map(ctx, &mut rep),
        "c01-agg" => c01::run_agg(ctx, &mut rep),
        _ => return None,
    }
    Some(rep)
}

/// Re-execute one recorded case.  Returns false if the case is not understood.
pub fn replay(monitor: &str, case: &Json, ctx: &Ctx, rep: &mut Report) -> bool {
    let _ = ctx;
    match monitor {
        m if m.starts_with("c01-") => c01::replay(case, rep),
        _ => false,
    }
}
