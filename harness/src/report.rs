//! Shard report: what a monitor observed (counters, coverage sets, samples,
//! violations).  Merged by the orchestrator.

use crate::json::Json;
use std::cell::RefCell;
use std::collections::{BTreeMap, BTreeSet, HashSet};
use std::panic::{self, AssertUnwindSafe};

pub const MAX_FINGERPRINTS: usize = 1 << 22;
pub const MAX_VIOLATIONS: usize = 12;
pub const MAX_SAMPLES: usize = 4;

pub struct Report {
    pub monitor: String,
    pub property: String,
    pub evaluations: u64,
    pub fingerprints: HashSet<u64>,
    pub fingerprints_capped: bool,
    pub counters: BTreeMap<String, u64>,
    pub maxes: BTreeMap<String, u64>,
    pub mins: BTreeMap<String, u64>,
    pub sets: BTreeMap<String, BTreeSet<String>>,
    pub floors: BTreeMap<String, u64>,
    pub set_floors: BTreeMap<String, u64>,
    pub samples: Vec<Json>,
    pub violations: Vec<Json>,
    pub violation_count: u64,
    pub known_signatures: BTreeMap<String, u64>,
    pub inconclusive: Vec<String>,
    pub rule: String,
    pub exhaustive: Option<bool>,
    pub assumptions: BTreeSet<String>,
    /// Coverage floors are meaningful only for full-scale runs; reduced runs (under an
    /// interpreter) keep only the floors registered with `*_always`.
    pub floors_enabled: bool,
}

impl Report {
    pub fn new(property: &str, monitor: &str) -> Report {
        Report {
            monitor: monitor.to_string(),
            property: property.to_string(),
            evaluations: 0,
            fingerprints: HashSet::new(),
            fingerprints_capped: false,
            counters: BTreeMap::new(),
            maxes: BTreeMap::new(),
            mins: BTreeMap::new(),
            sets: BTreeMap::new(),
            floors: BTreeMap::new(),
            set_floors: BTreeMap::new(),
            samples: Vec::new(),
            violations: Vec::new(),
            violation_count: 0,
            known_signatures: BTreeMap::new(),
            inconclusive: Vec::new(),
            rule: String::new(),
            exhaustive: None,
            assumptions: BTreeSet::new(),
            floors_enabled: true,
        }
    }

    #[inline]
    pub fn eval(&mut self, n: u64) {
        self.evaluations += n;
    }

    /// Note a distinct non-trivial case.
    #[inline]
    pub fn distinct(&mut self, fp: u64) {
        if self.fingerprints.len() < MAX_FINGERPRINTS {
            self.fingerprints.insert(fp);
        } else {
            self.fingerprints_capped = true;
        }
    }

    #[inline]
    pub fn count(&mut self, key: &str, n: u64) {
        if let Some(v) = self.counters.get_mut(key) {
            *v += n;
        } else {
            self.counters.insert(key.to_string(), n);
        }
    }

    pub fn max(&mut self, key: &str, v: u64) {
        let e = self.maxes.entry(key.to_string()).or_insert(0);
        if v > *e {
            *e = v;
        }
    }

    pub fn min(&mut self, key: &str, v: u64) {
        let e = self.mins.entry(key.to_string()).or_insert(u64::MAX);
        if v < *e {
            *e = v;
        }
    }

    pub fn seen(&mut self, set: &str, item: &str) {
        let s = self.sets.entry(set.to_string()).or_default();
        if s.len() < 4096 && !s.contains(item) {
            s.insert(item.to_string());
        }
    }

    /// The merged counter `key` must reach at least `min` or the run is inconclusive.
    pub fn floor(&mut self, key: &str, min: u64) {
        if !self.floors_enabled {
            return;
        }
        self.floors.insert(key.to_string(), min);
        self.counters.entry(key.to_string()).or_insert(0);
    }

    /// The merged set `key` must have at least `min` members or the run is inconclusive.
    pub fn set_floor(&mut self, key: &str, min: u64) {
        if !self.floors_enabled {
            return;
        }
        self.set_floor_always(key, min);
    }

    /// A floor that also applies to reduced runs.
    pub fn set_floor_always(&mut self, key: &str, min: u64) {
        self.set_floors.insert(key.to_string(), min);
        self.sets.entry(key.to_string()).or_default();
    }

    pub fn sample(&mut self, j: Json) {
        if self.samples.len() < MAX_SAMPLES {
            self.samples.push(j);
        }
    }

    pub fn want_sample(&self) -> bool {
        self.samples.len() < MAX_SAMPLES
    }

    /// Record a violation.  `signature` identifies the class of failure for
    /// the known-findings protocol; `case` must contain everything to replay.
    pub fn violation(&mut self, signature: &str, what: &str, case: Json) {
        self.violation_count += 1;
        *self
            .known_signatures
            .entry(signature.to_string())
            .or_insert(0) += 1;
        if self.violations.len() < MAX_VIOLATIONS {
            self.violations.push(
                Json::obj()
                    .with("signature", signature)
                    .with("what", what)
                    .with("monitor", self.monitor.as_str())
                    .with("case", case),
            );
        }
    }

    pub fn inconclusive(&mut self, why: &str) {
        if self.inconclusive.len() < 32 {
            self.inconclusive.push(why.to_string());
        }
    }

    pub fn assume(&mut self, what: &str) {
        self.assumptions.insert(what.to_string());
    }

    pub fn to_json(&self) -> Json {
        let mut j = Json::obj();
        j.set("monitor", self.monitor.as_str());
        j.set("property", self.property.as_str());
        j.set("evaluations", self.evaluations);
        j.set("distinct", self.fingerprints.len());
        j.set("distinct_capped", self.fingerprints_capped);
        let mut c = Json::obj();
        for (k, v) in &self.counters {
            c.set(k, *v);
        }
        j.set("counters", c);
        let mut c = Json::obj();
        for (k, v) in &self.maxes {
            c.set(k, *v);
        }
        j.set("maxes", c);
        let mut c = Json::obj();
        for (k, v) in &self.mins {
            c.set(k, *v);
        }
        j.set("mins", c);
        let mut c = Json::obj();
        for (k, v) in &self.sets {
            c.set(k, v.iter().map(|x| Json::s(x)).collect::<Vec<_>>());
        }
        j.set("sets", c);
        let mut c = Json::obj();
        for (k, v) in &self.floors {
            c.set(k, *v);
        }
        j.set("floors", c);
        let mut c = Json::obj();
        for (k, v) in &self.set_floors {
            c.set(k, *v);
        }
        j.set("set_floors", c);
        j.set("samples", Json::Arr(self.samples.clone()));
        j.set("violations", Json::Arr(self.violations.clone()));
        j.set("violation_count", self.violation_count);
        let mut c = Json::obj();
        for (k, v) in &self.known_signatures {
            c.set(k, *v);
        }
        j.set("signatures", c);
        j.set(
            "inconclusive",
            self.inconclusive
                .iter()
                .map(|x| Json::s(x))
                .collect::<Vec<_>>(),
        );
        j.set("rule", self.rule.as_str());
        if let Some(e) = self.exhaustive {
            j.set("exhaustive", e);
        }
        j.set(
            "assumptions",
            self.assumptions
                .iter()
                .map(|x| Json::s(x))
                .collect::<Vec<_>>(),
        );
        j
    }

    pub fn fingerprint_bytes(&self) -> Vec<u8> {
        let mut v: Vec<u64> = self.fingerprints.iter().copied().collect();
        v.sort_unstable();
        let mut out = Vec::with_capacity(v.len() * 8);
        for x in v {
            out.extend_from_slice(&x.to_le_bytes());
        }
        out
    }
}

// ---------------------------------------------------------------------------
// Panic capture

thread_local! {
    static LAST_PANIC: RefCell<Option<(String, String)>> = const { RefCell::new(None) };
    static QUIET: RefCell<bool> = const { RefCell::new(false) };
}

/// Install a panic hook which records (message, location) per thread and is
/// silent while a `guard()` is active on that thread.
pub fn install_panic_hook() {
    let default = panic::take_hook();
    panic::set_hook(Box::new(move |info| {
        let msg = if let Some(s) = info.payload().downcast_ref::<&str>() {
            s.to_string()
        } else if let Some(s) = info.payload().downcast_ref::<String>() {
            s.clone()
        } else {
            "<non-string panic payload>".to_string()
        };
        let loc = info
            .location()
            .map(|l| format!("{}:{}", l.file(), l.line()))
            .unwrap_or_default();
        let quiet = QUIET.with(|q| *q.borrow());
        LAST_PANIC.with(|p| *p.borrow_mut() = Some((msg, loc)));
        if !quiet {
            default(info);
        }
    }));
}

#[derive(Debug, Clone)]
pub struct Panicked {
    pub message: String,
    pub location: String,
}

/// Run `f`, converting a panic to `Err` (message + location).
pub fn guard<T>(f: impl FnOnce() -> T) -> Result<T, Panicked> {
    let prev = QUIET.with(|q| q.replace(true));
    LAST_PANIC.with(|p| *p.borrow_mut() = None);
    let r = panic::catch_unwind(AssertUnwindSafe(f));
    QUIET.with(|q| *q.borrow_mut() = prev);
    match r {
        Ok(v) => Ok(v),
        Err(_) => {
            let (message, location) = LAST_PANIC
                .with(|p| p.borrow_mut().take())
                .unwrap_or_else(|| ("<unknown>".into(), String::new()));
            Err(Panicked { message, location })
        }
    }
}
