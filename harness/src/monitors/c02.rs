//! C02 — distance equals the TLSH reference distance; C08 — algebraic laws.

use crate::gen;
use crate::json::Json;
use crate::oracle;
use crate::report::{guard, Report};
use crate::rng::{fingerprint, Rng};
use crate::variant::Variant;
use crate::{all_variants, Ctx};
use tlsh::{ComparisonConfiguration, FuzzyHashType};

/// Per-byte body distance table computed from the literal formula.
pub fn byte_table() -> Vec<u16> {
    let mut t = vec![0u16; 65536];
    for x in 0..256usize {
        for y in 0..256usize {
            t[x * 256 + y] = oracle::dist_body(&[x as u8], &[y as u8]) as u16;
        }
    }
    t
}

fn strict() -> bool {
    cfg!(feature = "strict")
}

fn make<V: Variant>(b: &[u8]) -> Option<V::H> {
    V::from_array(b).ok()
}

/// Full check of one pair through the public API (both modes + parts).
pub fn pair_check<V: Variant>(a: &[u8], b: &[u8], rep: &mut Report) {
    let case = || {
        Json::obj()
            .with("variant", V::NAME)
            .with("a", Json::hex(a))
            .with("b", Json::hex(b))
    };
    let r = guard(|| {
        let ha = make::<V>(a)?;
        let hb = make::<V>(b)?;
        Some((
            ha.compare_with_config(&hb, ComparisonConfiguration::Default),
            ha.compare_with_config(&hb, ComparisonConfiguration::NoLength),
            ha.compare(&hb),
            V::body_compare(&ha, &hb),
            V::checksum_compare(&ha, &hb),
            ha.qratios().compare(hb.qratios()),
            ha.length().compare(hb.length()),
        ))
    });
    let got = match r {
        Err(p) => {
            rep.violation(
                &format!("pair|{}|panic", V::NAME),
                &format!("panic while comparing: {} at {}", p.message, p.location),
                case(),
            );
            return;
        }
        Ok(None) => {
            rep.count("pair:not_constructible", 1);
            return;
        }
        Ok(Some(g)) => g,
    };
    let ck = V::CK;
    let e_body = oracle::dist_body(&a[ck + 2..], &b[ck + 2..]);
    let e_ck = oracle::dist_checksum(&a[..ck], &b[..ck]);
    let e_q = oracle::dist_q(a[ck + 1], b[ck + 1]);
    let e_len = oracle::dist_len(a[ck], b[ck]);
    let e_def = oracle::distance(a, b, ck, false);
    let e_nl = oracle::distance(a, b, ck, true);
    rep.eval(7);
    let checks: [(&str, u32, u32); 7] = [
        ("default", got.0, e_def),
        ("nolength", got.1, e_nl),
        ("compare()", got.2, e_def),
        ("body", got.3, e_body),
        ("checksum", got.4, e_ck),
        ("qratios", got.5, e_q),
        ("length", got.6, e_len),
    ];
    for (what, g, e) in checks {
        if g != e {
            rep.violation(
                &format!("pair|{}|{}", V::NAME, what),
                &format!("{} distance: crate {} vs reference {}", what, g, e),
                case(),
            );
        }
    }
    rep.max(&format!("max_distance_seen:{}", V::NAME), got.0 as u64);
    rep.min(&format!("min_distance_seen:{}", V::NAME), got.0 as u64);
}

// ---------------------------------------------------------------------------
// Header parts: exhaustive 256 x 256

fn parts_one<V: Variant>(ctx: &Ctx, rep: &mut Report) {
    let mut rng = ctx.rng("c02-parts", V::INDEX as u64);
    let ck = V::CK;
    // positions: every checksum byte, length, qratios
    let positions: Vec<usize> = (0..ck + 2).collect();
    // shard over (position, x)
    let total = positions.len() as u64 * 256;
    let (lo, hi) = ctx.slice(total);
    let base_a = gen::hash_bytes(&mut rng, V::SIZE, ck, V::NB, strict());
    let base_b = if ctx.shard % 2 == 0 {
        base_a.clone()
    } else {
        gen::hash_bytes(&mut rng, V::SIZE, ck, V::NB, strict())
    };
    for idx in lo..hi {
        let pos = positions[(idx / 256) as usize];
        let x = (idx % 256) as u8;
        for y in 0..=255u8 {
            let mut a = base_a.clone();
            let mut b = base_b.clone();
            a[pos] = x;
            b[pos] = y;
            pair_check::<V>(&a, &b, rep);
            rep.count("distinct_by_construction", 1);
        }
    }
    rep.count(&format!("parts:{}", V::NAME), (hi - lo) * 256);
}

pub fn run_parts(ctx: &Ctx, rep: &mut Report) {
    rep.rule = "every header byte position (each checksum byte, length code, Q-ratio byte) x all 256 x 256 value pairs on seeded backgrounds, through compare/compare_with_config and the part-level compare(), against the literal reference formula; every pair is distinct by construction (in strict-parser builds unconstructible values are counted, not compared)".into();
    rep.exhaustive = Some(true);
    all_variants!(parts_one, ctx, rep);
    rep.sample(Json::obj().with("q_pair", vec![Json::i(0x1f), Json::i(0x80)]).with("reference_distance", oracle::dist_q(0x1f, 0x80)));
}

// ---------------------------------------------------------------------------
// Bodies: every position x all 256 x 256 byte pairs, every back end

struct Backends {
    names: Vec<&'static str>,
    f12: Vec<Option<tlsh::verif::dist_body::Distance12>>,
    f32: Vec<tlsh::verif::dist_body::Distance32>,
    f64: Vec<tlsh::verif::dist_body::Distance64>,
}

fn backends() -> Backends {
    let mut b = Backends {
        names: vec![],
        f12: vec![],
        f32: vec![],
        f64: vec![],
    };
    tlsh::verif::dist_body::for_each_backend(&mut |name, f12, f32, f64| {
        b.names.push(name);
        b.f12.push(f12);
        b.f32.push(f32);
        b.f64.push(f64);
    });
    b
}

fn body_eval(be: &Backends, a: &[u8], b: &[u8], expect: u32, rep: &mut Report, evals: &mut u64) {
    let n = a.len();
    for i in 0..be.names.len() {
        let got = match n {
            12 => match be.f12[i] {
                Some(f) => f(a.try_into().unwrap(), b.try_into().unwrap()),
                None => continue,
            },
            32 => (be.f32[i])(a.try_into().unwrap(), b.try_into().unwrap()),
            _ => (be.f64[i])(a.try_into().unwrap(), b.try_into().unwrap()),
        };
        *evals += 1;
        if got != expect {
            rep.violation(
                &format!("body|{}|{}", be.names[i], n),
                &format!(
                    "{}-byte body distance via back end {}: {} vs reference {}",
                    n, be.names[i], got, expect
                ),
                Json::obj()
                    .with("backend", be.names[i])
                    .with("body_a", Json::hex(a))
                    .with("body_b", Json::hex(b)),
            );
        }
    }
}

pub fn body_replay(a: &[u8], b: &[u8], rep: &mut Report) {
    let be = backends();
    let mut evals = 0;
    let e = oracle::dist_body(a, b);
    if matches!(a.len(), 12 | 32 | 64) && a.len() == b.len() {
        body_eval(&be, a, b, e, rep, &mut evals);
    }
    rep.eval(evals);
}

pub fn run_body(ctx: &Ctx, rep: &mut Report) {
    rep.rule = "for every byte position of 12/32/64-byte bodies: all 256 x 256 byte pairs at that position on R independent random backgrounds, all 65 536 values of two adjacent bytes against seeded partners, plus seeded random and structured whole bodies; each through every compiled back end (dispatch, pseudo-SIMD 32/64, SSE2, SSE4.1, AVX2) against the per-dibit reference formula; distinct by construction (enumerated part) or fingerprint (random part)".into();
    let be = backends();
    for n in &be.names {
        rep.seen("dist-backends", n);
    }
    rep.set_floor_always("dist-backends", ctx.param_u64("expect_dist_backends", 3));
    // (the memoised per-byte table is too slow to build under an interpreter)
    let t = if ctx.scale < 1.0 { Vec::new() } else { byte_table() };
    let tb = |x: u8, y: u8| {
        if t.is_empty() {
            oracle::dist_body(&[x], &[y])
        } else {
            t[x as usize * 256 + y as usize] as u32
        }
    };
    let backgrounds: u64 = if ctx.scale < 1.0 {
        1
    } else if ctx.thorough() {
        16
    } else {
        2
    };
    let mut evals = 0u64;
    let small = ctx.scale < 1.0;
    for &n in &[12usize, 32, 64] {
        // shard over positions (and backgrounds)
        for r in 0..backgrounds {
            let mut rng = ctx.rng("c02-body-bg", (n as u64) << 32 | r);
            let mut a = rng.bytes(n);
            let mut b = rng.bytes(n);
            if r % 3 == 1 {
                b = a.clone();
            }
            let full: u32 = (0..n).map(|i| tb(a[i], b[i])).sum();
            if full != oracle::dist_body(&a, &b) {
                rep.inconclusive("oracle: byte table disagrees with the literal formula");
                return;
            }
            for p in 0..n {
                if (p as u64 + r) % ctx.nshards != ctx.shard && !small {
                    continue;
                }
                if small && p as u64 % 16 != ctx.shard % 16 {
                    continue;
                }
                let (sa, sb) = (a[p], b[p]);
                let base = full - tb(sa, sb);
                let step = if small { 85 } else { 1 };
                let ystep = if small { 51 } else { 1 };
                let mut x = 0usize;
                while x < 256 {
                    let mut y = (x / 85) % ystep;
                    while y < 256 {
                        a[p] = x as u8;
                        b[p] = y as u8;
                        body_eval(&be, &a, &b, base + tb(x as u8, y as u8), rep, &mut evals);
                        rep.count("distinct_by_construction", 1);
                        y += ystep;
                    }
                    x += step;
                }
                a[p] = sa;
                b[p] = sb;
                rep.count(&format!("body:positions_enumerated:{}", n), 1);
                // two adjacent bytes: all 65 536 values of a[p..p+2] against 4 seeded partners
                if p + 1 < n && !small {
                    let (sa1, sb1) = (a[p + 1], b[p + 1]);
                    let base2 = base - tb(sa1, sb1);
                    for _ in 0..4 {
                        let y = rng.next_u32();
                        b[p] = y as u8;
                        b[p + 1] = (y >> 8) as u8;
                        for x in 0..65536u32 {
                            a[p] = x as u8;
                            a[p + 1] = (x >> 8) as u8;
                            body_eval(
                                &be,
                                &a,
                                &b,
                                base2 + tb(a[p], b[p]) + tb(a[p + 1], b[p + 1]),
                                rep,
                                &mut evals,
                            );
                        }
                        rep.count("distinct_by_construction", 65536);
                    }
                    a[p] = sa;
                    b[p] = sb;
                    a[p + 1] = sa1;
                    b[p + 1] = sb1;
                    rep.count(&format!("body:adjacent_enumerated:{}", n), 1);
                }
            }
        }
        // random + structured whole bodies
        let m = ctx.n(400_000, 20_000_000);
        for i in 0..m {
            let mut rng = ctx.rng("c02-body-rand", (n as u64) << 40 | i);
            let a = match rng.below(6) {
                0 => vec![*rng.pick(&[0u8, 0xff, 0x55, 0xaa]); n],
                _ => rng.bytes(n),
            };
            let b = match rng.below(6) {
                0 => a.iter().map(|x| !x).collect(),
                1 => {
                    let mut b = a.clone();
                    let p = rng.below(n as u64) as usize;
                    b[p] ^= (1 + rng.below(3) as u8) << (2 * rng.below(4));
                    b
                }
                2 => vec![*rng.pick(&[0u8, 0xff, 0x55, 0xaa]); n],
                _ => rng.bytes(n),
            };
            let e: u32 = (0..n).map(|i| tb(a[i], b[i])).sum();
            body_eval(&be, &a, &b, e, rep, &mut evals);
            let mut fp = a.clone();
            fp.extend_from_slice(&b);
            rep.distinct(fingerprint(&fp));
            rep.max(&format!("body_distance_max:{}", n), e as u64);
            if rep.want_sample() && i == 3 {
                rep.sample(
                    Json::obj()
                        .with("body_a", Json::hex(&a))
                        .with("body_b", Json::hex(&b))
                        .with("reference_distance", e),
                );
            }
        }
    }
    rep.eval(evals);
    for (i, n) in be.names.iter().enumerate() {
        let _ = i;
        rep.count(&format!("body:backend:{}", n), 1);
    }
}

// ---------------------------------------------------------------------------
// Whole hashes through the public API (+ C08 laws)

fn laws<V: Variant>(a: &[u8], b: &[u8], expect_max: bool, rep: &mut Report) {
    let case = || {
        Json::obj()
            .with("variant", V::NAME)
            .with("a", Json::hex(a))
            .with("b", Json::hex(b))
    };
    let r = guard(|| {
        let ha = make::<V>(a)?;
        let hb = make::<V>(b)?;
        let mut out = Vec::new();
        for (mode, name) in [
            (ComparisonConfiguration::Default, "default"),
            (ComparisonConfiguration::NoLength, "nolength"),
        ] {
            let dab = ha.compare_with_config(&hb, mode);
            let dba = hb.compare_with_config(&ha, mode);
            let daa = ha.compare_with_config(&ha, mode);
            let dbb = hb.compare_with_config(&hb, mode);
            let max = V::H::max_distance(mode);
            let mut ca = ha;
            let mut cb = hb;
            ca.clear_checksum();
            cb.clear_checksum();
            let dcl = ca.compare_with_config(&cb, mode);
            out.push((name, dab, dba, daa, dbb, max, dcl));
        }
        let ldist = ha.length().compare(hb.length());
        let cdist = V::checksum_compare(&ha, &hb);
        let eq = ha == hb;
        Some((out, ldist, cdist, eq))
    });
    let (out, ldist, cdist, eq) = match r {
        Err(p) => {
            rep.violation(
                &format!("laws|{}|panic", V::NAME),
                &format!("panic: {} at {}", p.message, p.location),
                case(),
            );
            return;
        }
        Ok(None) => {
            rep.count("laws:not_constructible", 1);
            return;
        }
        Ok(Some(x)) => x,
    };
    let mut viol = |law: &str, what: String| {
        rep.violation(&format!("laws|{}|{}", V::NAME, law), &what, case());
    };
    for &(name, dab, dba, daa, dbb, max, dcl) in &out {
        if daa != 0 || dbb != 0 {
            viol("reflexive", format!("{}: d(a,a)={} d(b,b)={}", name, daa, dbb));
        }
        if dab != dba {
            viol("symmetric", format!("{}: d(a,b)={} d(b,a)={}", name, dab, dba));
        }
        if dab > max {
            viol("bounded", format!("{}: d(a,b)={} > max_distance={}", name, dab, max));
        }
        if dcl + cdist != dab {
            viol(
                "clear_checksum",
                format!(
                    "{}: d(clear a, clear b)={} != d(a,b)={} - checksum distance {}",
                    name, dcl, dab, cdist
                ),
            );
        }
        let emax = oracle::max_distance(V::NB, V::CK, name == "nolength");
        if max != emax {
            viol("max_distance", format!("{}: max_distance()={} vs reference {}", name, max, emax));
        }
    }
    let (ddef, dnl) = (out[0].1, out[1].1);
    if ddef != dnl + ldist {
        viol(
            "mode-relation",
            format!("d_Default={} != d_NoLength={} + length distance {}", ddef, dnl, ldist),
        );
    }
    if ddef == 0 && !eq {
        viol("identity", "d_Default(a,b)=0 but a != b".to_string());
    }
    if eq != (a == b) {
        viol("equality", "hash equality disagrees with byte equality".to_string());
    }
    if expect_max && (ddef != out[0].5 || dnl != out[1].5) {
        // the antipodal construction (all dibits 0 vs 3, every checksum byte different, Q nibbles
        // at ring distance 8, length codes at ring distance 128) has the maximum distance by the
        // reference formula: this is the witness for "the bound is actually attained"
        viol(
            "max-not-attained",
            format!(
                "antipodal pair: d_Default = {} (max_distance {}), d_NoLength = {} (max_distance {})",
                ddef, out[0].5, dnl, out[1].5
            ),
        );
    }
    if ddef == 0 {
        rep.count("laws:zero_distance_pairs", 1);
    }
    if ddef == out[0].5 {
        rep.count(&format!("laws:max_attained_default:{}", V::NAME), 1);
    }
    if dnl == out[1].5 {
        rep.count(&format!("laws:max_attained_nolength:{}", V::NAME), 1);
    }
    rep.eval(16);
}

/// The antipodal pair: body all-0 vs all-3 dibits, all checksum bytes different,
/// Q nibbles at ring distance 8, length codes at ring distance 128.
pub fn antipodal<V: Variant>(rng: &mut Rng) -> (Vec<u8>, Vec<u8>) {
    let ck = V::CK;
    let mut a = vec![0u8; V::SIZE];
    let mut b = vec![0u8; V::SIZE];
    for i in 0..ck {
        a[i] = if V::NB == 48 { rng.below(24) as u8 } else { rng.next_u8() };
        b[i] = a[i].wrapping_add(1);
    }
    a[ck] = rng.below(42) as u8;
    b[ck] = a[ck] + 128;
    let q1 = rng.below(16) as u8;
    let q2 = rng.below(16) as u8;
    a[ck + 1] = q1 | q2 << 4;
    b[ck + 1] = ((q1 + 8) & 15) | ((q2 + 8) & 15) << 4;
    let flip = rng.next_u8();
    for i in ck + 2..V::SIZE {
        // per dibit: 0 vs 3 or 3 vs 0
        let m = {
            let f = rng.next_u8() ^ flip;
            let mut m = 0u8;
            for k in 0..4 {
                if f >> k & 1 == 1 {
                    m |= 3 << (2 * k);
                }
            }
            m
        };
        a[i] = m;
        b[i] = !m;
    }
    (a, b)
}

fn whole_one<V: Variant>(ctx: &Ctx, rep: &mut Report, do_laws: bool, do_model: bool) {
    let n = ctx.n(1_000_000, 40_000_000) / if do_laws { 2 } else { 1 };
    for i in 0..n {
        let mut rng = ctx.rng("c02-whole", (V::INDEX as u64) << 48 | i);
        let kind = rng.below(10);
        let (a, b) = match kind {
            0 => antipodal::<V>(&mut rng),
            1..=4 => {
                let a = gen::hash_bytes(&mut rng, V::SIZE, V::CK, V::NB, strict());
                let b = gen::neighbour(&mut rng, &a, V::CK, V::NB, strict());
                (a, b)
            }
            _ => (
                gen::hash_bytes(&mut rng, V::SIZE, V::CK, V::NB, strict()),
                gen::hash_bytes(&mut rng, V::SIZE, V::CK, V::NB, strict()),
            ),
        };
        if do_model {
            pair_check::<V>(&a, &b, rep);
        }
        if do_laws {
            laws::<V>(&a, &b, kind == 0, rep);
        }
        let mut fp = a.clone();
        fp.extend_from_slice(&b);
        fp.push(V::INDEX as u8);
        rep.distinct(fingerprint(&fp));
        if rep.want_sample() && i == 11 {
            rep.sample(
                Json::obj()
                    .with("variant", V::NAME)
                    .with("a", Json::hex(&a))
                    .with("b", Json::hex(&b))
                    .with("reference_distance_default", oracle::distance(&a, &b, V::CK, false))
                    .with("reference_distance_nolength", oracle::distance(&a, &b, V::CK, true)),
            );
        }
    }
}

pub fn run_whole(ctx: &Ctx, rep: &mut Report) {
    rep.rule = "seeded pairs of whole hash values of all five variants (uniform byte patterns, structured neighbours differing in one part/dibit, complemented bodies, antipodal constructions), both modes, through compare/compare_with_config/part compare() against the reference formula; non-trivial = constructible pair; distinct by fingerprint of (variant, a, b)".into();
    all_variants!(whole_one, ctx, rep, false, true);
}

pub fn run_laws(ctx: &Ctx, rep: &mut Report) {
    rep.rule = "seeded pairs of whole hash values (uniform, neighbours, equal, antipodal) of all five variants checked against the algebraic laws: d(a,a)=0, d_Default=0 => a==b, symmetry, <= max_distance (and max_distance equal to the documented sum), d_Default = d_NoLength + length distance, clear_checksum lowers the distance by exactly the checksum distance; the antipodal construction must attain max_distance in both modes; distinct by fingerprint of (variant, a, b)".into();
    all_variants!(whole_one, ctx, rep, true, false);
    for v in ["Short", "Normal", "NormalWithLongChecksum", "Long", "LongWithLongChecksum"] {
        rep.floor(&format!("laws:max_attained_default:{}", v), 1);
        rep.floor(&format!("laws:max_attained_nolength:{}", v), 1);
    }
    rep.floor("laws:zero_distance_pairs", 1);
    // the reference distance model obeys the same laws (guards the oracle)
    let mut rng = ctx.rng("c08-oracle", 0);
    for _ in 0..(if ctx.scale < 0.2 { 20 } else { 20000 }) {
        let a = rng.bytes(35);
        let b = rng.bytes(35);
        let d = oracle::distance(&a, &b, 1, false);
        if d != oracle::distance(&b, &a, 1, false)
            || oracle::distance(&a, &a, 1, false) != 0
            || d > oracle::max_distance(128, 1, false)
        {
            rep.inconclusive("oracle: the reference distance model violates its own laws");
            break;
        }
    }
}

fn replay_pair<V: Variant>(name: &str, a: &[u8], b: &[u8], rep: &mut Report) {
    if name == V::NAME && a.len() == V::SIZE && b.len() == V::SIZE {
        pair_check::<V>(a, b, rep);
        laws::<V>(a, b, false, rep);
    }
}

pub fn replay(case: &Json, rep: &mut Report) -> bool {
    if let (Some(a), Some(b)) = (case.get_hex("body_a"), case.get_hex("body_b")) {
        body_replay(&a, &b, rep);
        return true;
    }
    if let (Some(v), Some(a), Some(b)) = (
        case.get("variant").and_then(|v| v.as_str()),
        case.get_hex("a"),
        case.get_hex("b"),
    ) {
        all_variants!(replay_pair, v, &a, &b, rep);
        return true;
    }
    false
}
