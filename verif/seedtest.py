#!/usr/bin/env python3
"""Evaluate a seeded defect.

  seedtest.py verify <seeded-dir>            confirm in a scratch worktree that the patch applies, builds,
                                             passes the pinned tests (149 unit + 16 doc) and that the demo
                                             fails with it / passes without it
  seedtest.py detect <seeded-dir> [PROP...]  apply the patch to /repo, run the quick checks of the given
                                             properties (default: the property in meta.json), undo the patch

Nothing is ever committed to /repo; the patch is removed again with `git checkout -- .` (and untracked
files it added are deleted).
"""
import json
import os
import re
import shutil
import subprocess
import sys
import time

ROOT = os.path.dirname(os.path.dirname(os.path.abspath(__file__)))
REPO = "/repo"


def sh(cmd, cwd=None, env=None, timeout=3600):
    p = subprocess.run(cmd, cwd=cwd, env=env, shell=isinstance(cmd, str), stdout=subprocess.PIPE, stderr=subprocess.STDOUT, text=True, timeout=timeout)
    return p.returncode, p.stdout


def repo_clean():
    rc, out = sh(["git", "-C", REPO, "status", "--porcelain"])
    return out.strip() == ""


def undo():
    sh(["git", "-C", REPO, "checkout", "--", "."])
    sh(["git", "-C", REPO, "clean", "-fdq", "--", "fast-tlsh/src", "fast-tlsh/build.rs", "fast-tlsh/Cargo.toml"])


def demo_command(meta):
    """(env additions, argv) of the demonstration, taken from meta.json's demo_cmd."""
    cmd = meta.get("demo_cmd", "")
    first = cmd.split("#")[0]
    env = {}
    m = re.search(r'RUSTFLAGS=(?:"([^"]*)"|\'([^\']*)\'|(\S+))', first)
    if m:
        env["RUSTFLAGS"] = m.group(1) or m.group(2) or m.group(3)
    m = re.search(r"cargo\s+((?:\+nightly\s+)?(?:miri\s+)?(?:run|test)\b[^&;|]*)", first)
    argv = ["cargo"] + (m.group(1).split() if m else ["run", "--offline"])
    # we run inside the demo directory: a manifest path relative to the agent's worktree is dropped
    if "--manifest-path" in argv:
        i = argv.index("--manifest-path")
        del argv[i:i + 2]
    if "--offline" not in argv:
        argv.append("--offline")
    m = re.search(r"^\s*(sh|bash)\s+(\S+run\.sh)", first)
    if m:
        argv = [m.group(1), os.path.basename(m.group(2))]
    return env, argv


def verify(sdir):
    sdir = os.path.abspath(sdir)
    name = os.path.basename(sdir.rstrip("/"))
    patch = os.path.join(sdir, "patch.diff")
    meta = json.load(open(os.path.join(sdir, "meta.json")))
    wt = "/tmp/wt/verify-%s" % name
    sh(["git", "-C", REPO, "worktree", "remove", "--force", wt])
    shutil.rmtree(wt, ignore_errors=True)
    rc, out = sh(["git", "-C", REPO, "worktree", "add", "-q", "--detach", wt, "HEAD"])
    if rc != 0:
        print(out)
        return 2
    env = dict(os.environ, CARGO_TARGET_DIR=os.path.join(wt, "_target"), CARGO_NET_OFFLINE="true")
    result = {"seeded": name, "applies": False, "tests_pass": False, "nodefault_builds": None}
    try:
        # the demonstration lives where its relative path to ../../../fast-tlsh resolves
        demo_src = os.path.join(sdir, "demo")
        demo_dst = os.path.join(wt, "_seeded", name, "demo")
        if os.path.isdir(demo_src):
            shutil.copytree(demo_src, demo_dst)
        denv, dargv = demo_command(meta)
        demo_env = dict(env, CARGO_TARGET_DIR=os.path.join(wt, "_target_demo"), **denv)

        def run_demo():
            if not os.path.isdir(demo_dst):
                return None, "no demo directory"
            rc, out = sh(dargv, cwd=demo_dst, env=demo_env, timeout=3600)
            return rc, "\n".join(out.strip().splitlines()[-4:])

        rc0, out0 = run_demo()
        result["demo_without_patch"] = {"exit": rc0, "tail": out0[-300:]}
        rc, out = sh(["git", "apply", "--whitespace=nowarn", patch], cwd=wt)
        result["applies"] = rc == 0
        if rc != 0:
            print("patch does not apply:\n" + out)
            return 1
        rc, out = sh("cargo test --workspace --no-fail-fast --offline 2>&1 | grep -E '^test result|FAILED|panicked|error(\\[|:)' | head -20", cwd=wt, env=env)
        unit = re.findall(r"test result: ok\. (\d+) passed; 0 failed", out)
        result["tests_pass"] = "149" in unit and "16" in unit and "FAILED" not in out
        result["tests"] = unit
        rc2, out2 = sh("cargo build --offline -p fast-tlsh --no-default-features 2>&1 | tail -3", cwd=wt, env=env)
        result["nodefault_builds"] = "error" not in out2
        rc1, out1 = run_demo()
        result["demo_with_patch"] = {"exit": rc1, "tail": out1[-300:]}
        result["confirmed"] = bool(result["tests_pass"] and rc0 == 0 and rc1 not in (0, None))
        print(json.dumps(result, indent=1))
        with open(os.path.join(sdir, "verified.json"), "w") as f:
            json.dump(result, f, indent=1)
    finally:
        sh(["git", "-C", REPO, "worktree", "remove", "--force", wt])
        shutil.rmtree(wt, ignore_errors=True)
    return 0 if result.get("confirmed") else 1


def detect(sdir, props):
    sdir = os.path.abspath(sdir)
    patch = os.path.join(sdir, "patch.diff")
    meta = json.load(open(os.path.join(sdir, "meta.json")))
    if not props:
        props = [meta["property"]]
    if not repo_clean():
        print("/repo is not clean; refusing")
        return 2
    rc, out = sh(["git", "-C", REPO, "apply", "--whitespace=nowarn", patch])
    if rc != 0:
        print("patch does not apply to /repo:\n" + out)
        return 2
    results = {}
    try:
        for p in props:
            t0 = time.time()
            rc, out = sh([os.path.join(ROOT, "check"), p, "--tier", os.environ.get("SEED_TIER", "quick")], cwd=ROOT, timeout=4 * 3600)
            lines = [l for l in out.splitlines() if l.startswith(("VIOLATION", "  what", "INCONCLUSIVE", "KNOWN-FINDING")) or " tier=" in l]
            results[p] = {"exit": rc, "wall_s": round(time.time() - t0, 1), "lines": lines[:6]}
            print("== %s: exit %d in %.0fs" % (p, rc, time.time() - t0))
            for l in lines[:6]:
                print("   " + l[:400])
    finally:
        undo()
    if not repo_clean():
        print("WARNING: /repo not clean after undo")
    print(json.dumps({"seeded": os.path.basename(sdir.rstrip("/")), "detected_by": [p for p, r in results.items() if r["exit"] == 1],
                      "missed_by": [p for p, r in results.items() if r["exit"] != 1]}))
    return 0


if __name__ == "__main__":
    if len(sys.argv) < 3:
        print(__doc__)
        sys.exit(2)
    if sys.argv[1] == "verify":
        sys.exit(verify(sys.argv[2]))
    sys.exit(detect(sys.argv[2], sys.argv[3:]))
