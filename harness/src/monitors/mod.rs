//! One module per property; `run()` maps monitor names to them.

use crate::json::Json;
use crate::report::Report;
use crate::Ctx;

pub mod c01;
pub mod c07;
pub mod c17;
#[cfg(feature = "count-alloc")]
pub mod c18;
pub mod c02;
pub mod c03;
pub mod c09;
pub mod c10;
pub mod c11;
pub mod c12;
pub mod c16;
pub mod codec;

/// (monitor name, property id)
pub const MONITORS: &[(&str, &str)] = &[
    ("c01-api", "C01"),
    ("c01-state", "C01"),
    ("c01-map", "C01"),
    ("c01-agg", "C01"),
    ("c02-parts", "C02"),
    ("c02-body", "C02"),
    ("c02-whole", "C02"),
    ("c03-history", "C03"),
    ("c04-text", "C04"),
    ("c05-parse", "C05"),
    ("c06-binary", "C06"),
    ("c08-laws", "C08"),
    ("c09-length", "C09"),
    ("c10-lattice", "C10"),
    ("c11-oversize", "C11"),
    ("c11-real", "C11"),
    ("c11-huge-slice", "C11"),
    ("c12-stream", "C12"),
    ("c12-pipe", "C12"),
    ("c13-compare", "C13"),
    ("c14-buffers", "C14"),
    ("c15-gates", "C15"),
    ("c15-generated", "C15"),
    ("c07-transcript", "C07"),
    ("c07-firstcall", "C07"),
    ("c17-fuzz", "C17"),
    ("c18-alloc", "C18"),
    ("c16-formats", "C16"),
    ("c16-mock", "C16"),
];

pub fn property_of(monitor: &str) -> Option<&'static str> {
    MONITORS.iter().find(|(m, _)| *m == monitor).map(|(_, p)| *p)
}

pub fn run(monitor: &str, ctx: &Ctx) -> Option<Report> {
    let prop = ctx
        .params
        .get("property")
        .map(|s| s.as_str())
        .or(property_of(monitor))?;
    let mut rep = Report::new(prop, monitor);
    rep.floors_enabled = ctx.scale >= 0.2;
    match monitor {
        "c01-api" => c01::run_api(ctx, &mut rep),
        "c01-state" => c01::run_state(ctx, &mut rep),
        "c01-map" => c01::run_map(ctx, &mut rep),
        "c01-agg" => c01::run_agg(ctx, &mut rep),
        "c02-parts" => c02::run_parts(ctx, &mut rep),
        "c02-body" => c02::run_body(ctx, &mut rep),
        "c02-whole" => c02::run_whole(ctx, &mut rep),
        "c08-laws" => c02::run_laws(ctx, &mut rep),
        "c03-history" => c03::run(ctx, &mut rep),
        "c04-text" => codec::run_c04(ctx, &mut rep),
        "c05-parse" => codec::run_c05(ctx, &mut rep),
        "c06-binary" => codec::run_c06(ctx, &mut rep),
        "c09-length" => c09::run(ctx, &mut rep),
        "c10-lattice" => c10::run(ctx, &mut rep),
        "c11-oversize" => c11::run(ctx, &mut rep),
        "c11-real" => c11::run_real(ctx, &mut rep),
        "c11-huge-slice" => c11::run_huge_slice(ctx, &mut rep),
        "c12-stream" => c12::run_stream(ctx, &mut rep),
        "c12-pipe" => c12::run_pipe(ctx, &mut rep),
        "c13-compare" => c12::run_compare(ctx, &mut rep),
        "c14-buffers" => codec::run_c14(ctx, &mut rep),
        "c15-gates" => codec::run_c15_gates(ctx, &mut rep),
        "c15-generated" => codec::run_c15_generated(ctx, &mut rep),
        "c07-transcript" => c07::run_transcript(ctx, &mut rep),
        "c07-firstcall" => c07::run_firstcall(ctx, &mut rep),
        "c17-fuzz" => c17::run_fuzz(ctx, &mut rep),
        #[cfg(feature = "count-alloc")]
        "c18-alloc" => c18::run(ctx, &mut rep),
        #[cfg(not(feature = "count-alloc"))]
        "c18-alloc" => rep.inconclusive("this probe was built without the counting allocator"),
        #[cfg(feature = "serde")]
        "c16-formats" => c16::run_formats(ctx, &mut rep),
        #[cfg(feature = "serde")]
        "c16-mock" => c16::run_mock(ctx, &mut rep),
        #[cfg(not(feature = "serde"))]
        "c16-formats" | "c16-mock" => rep.inconclusive("this probe was built without the serde feature"),
        _ => return None,
    }
    Some(rep)
}

/// Re-execute one recorded case.  Returns false if the case is not understood.
pub fn replay(monitor: &str, case: &Json, ctx: &Ctx, rep: &mut Report) -> bool {
    match monitor {
        m if m.starts_with("c01-") => c01::replay(case, rep),
        "c02-parts" | "c02-body" | "c02-whole" | "c08-laws" => c02::replay(case, rep),
        "c03-history" => c03::replay(case, rep),
        "c04-text" | "c05-parse" | "c06-binary" | "c14-buffers" | "c15-gates" | "c15-generated" => {
            codec::replay(case, rep)
        }
        "c09-length" => c09::replay(case, rep),
        "c10-lattice" => c10::replay(case, rep),
        m if m.starts_with("c11-") => c11::replay(case, ctx, rep),
        "c12-stream" | "c12-pipe" | "c13-compare" => c12::replay(case, ctx, rep),
        #[cfg(feature = "serde")]
        "c16-formats" | "c16-mock" => c16::replay(case, rep),
        "c07-transcript" | "c07-firstcall" => c07::replay(case, ctx, rep),
        "c17-fuzz" => c17::replay(case, rep),
        #[cfg(feature = "count-alloc")]
        "c18-alloc" => c18::replay(case, ctx, rep),
        _ => false,
    }
}
