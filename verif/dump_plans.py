#!/usr/bin/env python3
"""Print the check plans (what runs where) as markdown — DESIGN.md Appendix B is generated from this."""
import os, sys
HERE = os.path.dirname(os.path.abspath(__file__))
sys.path.insert(0, HERE)
import plans
for i in range(1, 19):
    pid = "C%02d" % i
    print("**%s**" % pid)
    for tier in ("quick", "thorough"):
        steps = plans.plan(pid, tier)
        groups = {}
        for s in steps:
            key = (s.monitor, s.profile, s.tool)
            groups.setdefault(key, []).append("%s%s" % (s.config, "" if s.scale == 1.0 else "@x%g" % s.scale))
        parts = []
        for (mon, prof, tool), cfgs in groups.items():
            t = prof if tool == "native" else tool
            parts.append("`%s` [%s]: %s" % (mon, t, ", ".join(cfgs)))
        print("* %s (%d steps, %d processes): %s" % (tier, len(steps), sum(s.shards for s in steps), "; ".join(parts)))
    print()
