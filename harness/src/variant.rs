//! One trait to drive the five concrete hash variants (the crate's own bound
//! `ConstrainedFuzzyHashType` is private, so generic code over hash types is
//! impossible outside the crate; each variant is instantiated by macro).

use std::fmt::{Debug, Display};
use std::io::Read;
use std::path::Path;

use tlsh::generate::Generator;
use tlsh::hash::body::FuzzyHashBody;
use tlsh::hash::checksum::FuzzyHashChecksum;
use tlsh::length::DataLengthValidity;
use tlsh::verif::GeneratorState;
use tlsh::{
    FuzzyHashType, GeneratorError, GeneratorOrIOError, GeneratorType, ParseError,
    ParseErrorEither,
};

#[cfg(feature = "serde")]
pub trait MaybeSerde: serde::Serialize + serde::de::DeserializeOwned {}
#[cfg(feature = "serde")]
impl<T: serde::Serialize + serde::de::DeserializeOwned> MaybeSerde for T {}
#[cfg(not(feature = "serde"))]
pub trait MaybeSerde {}
#[cfg(not(feature = "serde"))]
impl<T> MaybeSerde for T {}

/// Decomposed hash (what the accessors report).
#[derive(Clone, Debug, PartialEq, Eq)]
pub struct Parts {
    pub cs: Vec<u8>,
    pub lv: u8,
    pub q: u8,
    pub body: Vec<u8>,
}

impl Parts {
    pub fn bytes(&self) -> Vec<u8> {
        let mut v = self.cs.clone();
        v.push(self.lv);
        v.push(self.q);
        v.extend_from_slice(&self.body);
        v
    }
}

pub trait Variant: Sized + 'static {
    type H: FuzzyHashType + Copy + Eq + Debug + Display + MaybeSerde + Send + Sync;
    type G: GeneratorType<Output = Self::H> + Clone + Debug + Send + Sync;
    const NAME: &'static str;
    const INDEX: usize;
    const NB: usize;
    const CK: usize;
    const BODY: usize;
    /// Size of the binary form.
    const SIZE: usize;
    /// Length of the text form with the prefix.
    const LEN_STR: usize;

    fn new_gen() -> Self::G;
    fn gen_from_state(state: &GeneratorState) -> Self::G;
    fn gen_state(g: &Self::G) -> GeneratorState;
    fn validity(len: u32) -> DataLengthValidity;
    fn hash_buf(data: &[u8]) -> Result<Self::H, GeneratorError>;
    fn hash_stream(reader: &mut dyn Read) -> Result<Self::H, GeneratorOrIOError>;
    fn hash_file(path: &Path) -> Result<Self::H, GeneratorOrIOError>;
    fn compare_with(l: &str, r: &str) -> Result<u32, ParseErrorEither>;
    /// `TryFrom<&[u8; SIZE]>` (panics if `b.len() != SIZE`).
    fn from_array(b: &[u8]) -> Result<Self::H, ParseError>;
    /// `TryFrom<&[u8]>`.
    fn from_slice(b: &[u8]) -> Result<Self::H, ParseError>;
    fn parts(h: &Self::H) -> Parts;
    fn quartile(h: &Self::H, index: usize) -> u8;
    fn body_compare(a: &Self::H, b: &Self::H) -> u32;
    fn checksum_compare(a: &Self::H, b: &Self::H) -> u32;
    fn checksum_valid(h: &Self::H) -> bool;
    fn body_max_distance() -> u32;
    fn checksum_max_distance() -> u32;
}

macro_rules! variant {
    ($marker:ident, $ty:ident, $index:expr, $nb:expr, $ck:expr) => {
        pub struct $marker;
        impl Variant for $marker {
            type H = tlsh::hashes::$ty;
            type G = Generator<tlsh::hashes::$ty>;
            const NAME: &'static str = stringify!($ty);
            const INDEX: usize = $index;
            const NB: usize = $nb;
            const CK: usize = $ck;
            const BODY: usize = $nb / 4;
            const SIZE: usize = $nb / 4 + 2 + $ck;
            const LEN_STR: usize = ($nb / 4 + 2 + $ck) * 2 + 2;

            fn new_gen() -> Self::G {
                Generator::<tlsh::hashes::$ty>::new()
            }
            fn gen_from_state(state: &GeneratorState) -> Self::G {
                Generator::<tlsh::hashes::$ty>::verif_from_state(state)
            }
            fn gen_state(g: &Self::G) -> GeneratorState {
                g.verif_state()
            }
            fn validity(len: u32) -> DataLengthValidity {
                DataLengthValidity::new::<{ $nb }>(len)
            }
            fn hash_buf(data: &[u8]) -> Result<Self::H, GeneratorError> {
                tlsh::hash_buf_for::<tlsh::hashes::$ty>(data)
            }
            fn hash_stream(reader: &mut dyn Read) -> Result<Self::H, GeneratorOrIOError> {
                let mut reader = reader;
                tlsh::hash_stream_for::<tlsh::hashes::$ty, _>(&mut reader)
            }
            fn hash_file(path: &Path) -> Result<Self::H, GeneratorOrIOError> {
                tlsh::hash_file_for::<tlsh::hashes::$ty, _>(path)
            }
            fn compare_with(l: &str, r: &str) -> Result<u32, ParseErrorEither> {
                tlsh::compare_with::<tlsh::hashes::$ty>(l, r)
            }
            fn from_array(b: &[u8]) -> Result<Self::H, ParseError> {
                let a: &[u8; $nb / 4 + 2 + $ck] = b.try_into().expect("from_array: wrong size");
                <tlsh::hashes::$ty>::try_from(a)
            }
            fn from_slice(b: &[u8]) -> Result<Self::H, ParseError> {
                <tlsh::hashes::$ty>::try_from(b)
            }
            fn parts(h: &Self::H) -> Parts {
                Parts {
                    cs: h.checksum().data().to_vec(),
                    lv: h.length().value(),
                    q: h.qratios().value(),
                    body: h.body().data().to_vec(),
                }
            }
            fn quartile(h: &Self::H, index: usize) -> u8 {
                h.body().quartile(index)
            }
            fn body_compare(a: &Self::H, b: &Self::H) -> u32 {
                a.body().compare(b.body())
            }
            fn checksum_compare(a: &Self::H, b: &Self::H) -> u32 {
                a.checksum().compare(b.checksum())
            }
            fn checksum_valid(h: &Self::H) -> bool {
                h.checksum().is_valid()
            }
            fn body_max_distance() -> u32 {
                <<tlsh::hashes::$ty as FuzzyHashType>::BodyType as FuzzyHashBody>::MAX_DISTANCE
            }
            fn checksum_max_distance() -> u32 {
                <<tlsh::hashes::$ty as FuzzyHashType>::ChecksumType as FuzzyHashChecksum>::MAX_DISTANCE
            }
        }
    };
}

variant!(VShort, Short, 0, 48, 1);
variant!(VNormal, Normal, 1, 128, 1);
variant!(VNormal3, NormalWithLongChecksum, 2, 128, 3);
variant!(VLong, Long, 3, 256, 1);
variant!(VLong3, LongWithLongChecksum, 4, 256, 3);

/// Run a generic function item for all five variants: `all_variants!(f, args...)`
/// expands to `f::<VShort>(args...); f::<VNormal>(args...); ...`.
#[macro_export]
macro_rules! all_variants {
    ($f:ident $(, $arg:expr)*) => {{
        $f::<$crate::variant::VShort>($($arg),*);
        $f::<$crate::variant::VNormal>($($arg),*);
        $f::<$crate::variant::VNormal3>($($arg),*);
        $f::<$crate::variant::VLong>($($arg),*);
        $f::<$crate::variant::VLong3>($($arg),*);
    }};
}

/// Build `GeneratorOptions` from the 5-bit index of [`crate::oracle::Opts`].
///
/// The result must not depend on the order in which the setters are called nor on
/// values set earlier, so the order rotates through all 24 permutations of the four flag
/// setters and every third call first sets the opposite values.
pub fn options(o: crate::oracle::Opts) -> tlsh::GeneratorOptions {
    use std::sync::atomic::{AtomicU64, Ordering};
    static CALLS: AtomicU64 = AtomicU64::new(0);
    let k = CALLS.fetch_add(1, Ordering::Relaxed);
    let mut g = tlsh::GeneratorOptions::new();
    let mode = |c: bool| {
        if c {
            tlsh::DataLengthProcessingMode::Conservative
        } else {
            tlsh::DataLengthProcessingMode::Optimistic
        }
    };
    let apply = |g: &mut tlsh::GeneratorOptions, which: usize, invert: bool| {
        let x = |v: bool| v != invert;
        match which {
            0 => {
                g.pure_integer_qratio_computation(x(o.intq()));
            }
            1 => {
                g.allow_small_size_files(x(o.small()));
            }
            2 => {
                g.allow_statistically_weak_buckets_half(x(o.half()));
            }
            _ => {
                g.allow_statistically_weak_buckets_quarter(x(o.quarter()));
            }
        }
    };
    // the k-th permutation of [0,1,2,3]
    let mut items = vec![0usize, 1, 2, 3];
    let mut perm = Vec::with_capacity(4);
    let mut r = (k % 24) as usize;
    for n in (1..=4).rev() {
        let f: usize = (1..n).product();
        perm.push(items.remove(r / f));
        r %= f;
    }
    if k % 3 == 1 {
        g.length_processing_mode(mode(!o.conservative()));
        for &w in perm.iter().rev() {
            apply(&mut g, w, true);
        }
    }
    if k % 2 == 0 {
        g.length_processing_mode(mode(o.conservative()));
    }
    for &w in &perm {
        apply(&mut g, w, false);
    }
    g.length_processing_mode(mode(o.conservative()));
    g
}

pub fn gen_err_name(e: &GeneratorError) -> &'static str {
    match e {
        GeneratorError::TooLargeInput => "TooLargeInput",
        GeneratorError::TooSmallInput => "TooSmallInput",
        GeneratorError::BucketsAreHalfEmpty => "BucketsAreHalfEmpty",
        GeneratorError::BucketsAreThreeQuarterEmpty => "BucketsAreThreeQuarterEmpty",
        _ => "<unknown GeneratorError>",
    }
}

pub fn parse_err_name(e: &ParseError) -> &'static str {
    match e {
        ParseError::LengthIsTooLarge => "LengthIsTooLarge",
        ParseError::InvalidPrefix => "InvalidPrefix",
        ParseError::InvalidCharacter => "InvalidCharacter",
        ParseError::InvalidStringLength => "InvalidStringLength",
        ParseError::InvalidChecksum => "InvalidChecksum",
        _ => "<unknown ParseError>",
    }
}
